"""Shape classes of every scenario — plain data, importable without JAX (the parent
process of a check never imports JAX)."""

from __future__ import annotations


def classes(name: str, tier: str, prop: str) -> list[dict]:
    return globals()[name](tier, prop)


def collect_on(tier: str, prop: str) -> list[dict]:
    """Shape classes (static knobs).  Everything else is data and never recompiles."""
    base = [
        dict(algo="PPO", kind="discrete", dims=[3], S=5, masked=True, n=2, T=5, stack=["TimeLimit"], obs_kind="box"),
        dict(algo="PPO", kind="box", dims=[2], S=4, masked=False, n=2, T=4, stack=["TimeLimit"], obs_kind="box"),
        dict(algo="A2C", kind="discrete", dims=[2], S=4, masked=False, n=1, T=6, stack=["TimeLimit"], obs_kind="dict"),
        dict(algo="REINFORCE", kind="multidiscrete", dims=[2, 2], S=4, masked=True, n=3, T=3, stack=[], obs_kind="box"),
        dict(algo="A2C", kind="multidiscrete", dims=[2, 3, 2], S=4, masked=True, n=2, T=4, stack=["TimeLimit"], obs_kind="box"),
        dict(algo="PPO", kind="multibinary", dims=[2], S=4, masked=True, n=1, T=8, stack=["TimeLimit", "Identity"], obs_kind="tuple"),
        dict(algo="A2C", kind="boxscalar", dims=[4], S=5, masked=False, n=4, T=2, stack=["TimeLimit"], obs_kind="box"),
        dict(algo="PPO", kind="discrete", dims=[4], S=7, masked=True, n=4, T=1, stack=["TimeLimit"], obs_kind="discrete"),
        dict(algo="REINFORCE", kind="box", dims=[2, 2], S=3, masked=False, n=1, T=16, stack=["TimeLimit"], obs_kind="box"),
        # hyper-parameters given as plain Python floats (as a user would), incl. the falsy value 0.0
        # the algorithm is handed a stack whose action space differs from the base environment's: clip to the GIVEN environment's bounds
        dict(algo="PPO", kind="box", dims=[2], S=4, masked=False, n=2, T=5, stack=["RescaleAction", "TimeLimit"], obs_kind="box"),
        dict(algo="A2C", kind="boxscalar", dims=[4], S=4, masked=False, n=1, T=6, stack=["TimeLimit", "RescaleAction"], obs_kind="box"),
        # one-sided action boxes: the finite bound must still be enforced by the collection loop's clip
        dict(algo="PPO", kind="box", dims=[2], S=4, masked=False, n=2, T=5, stack=["TimeLimit"], obs_kind="box", box_high="inf"),
        dict(algo="A2C", kind="boxscalar", dims=[4], S=4, masked=False, n=1, T=6, stack=["TimeLimit"], obs_kind="box", box_low="-inf"),
        dict(algo="A2C", kind="discrete", dims=[2], S=4, masked=False, n=2, T=6, stack=["TimeLimit"], obs_kind="box", static_hp={"gamma": 0.9, "lam": 0.0}),
        dict(algo="PPO", kind="discrete", dims=[3], S=4, masked=False, n=1, T=5, stack=[], obs_kind="box", static_hp={"gamma": 1.0, "lam": 0.0}),
    ]
    if prop == "C12":
        base = [c for c in base if c["n"] > 1]
    if prop == "C16":
        base = [c for c in base if c["masked"]]
    if tier == "quick":
        return base
    extra = [
        dict(algo="A2C", kind="discrete", dims=[3], S=8, masked=True, n=3, T=7, stack=["Identity", "TimeLimit"], obs_kind="box"),
        dict(algo="PPO", kind="boxscalar", dims=[2], S=6, masked=False, n=2, T=9, stack=[], obs_kind="dict"),
        dict(algo="REINFORCE", kind="multibinary", dims=[3], S=6, masked=True, n=2, T=5, stack=["TimeLimit"], obs_kind="box"),
        dict(algo="PPO", kind="multidiscrete", dims=[3, 2], S=6, masked=True, n=2, T=6, stack=["TimeLimit"], obs_kind="tuple"),
        dict(algo="A2C", kind="box", dims=[4], S=8, masked=False, n=3, T=5, stack=["TimeLimit"], obs_kind="box"),
        dict(algo="PPO", kind="discrete", dims=[2], S=3, masked=False, n=1, T=12, stack=["TimeLimit"], obs_kind="box"),
    ]
    if prop == "C12":
        extra = [c for c in extra if c["n"] > 1]
    if prop == "C16":
        extra = [c for c in extra if c["masked"]]
    return base + extra




def offpolicy(tier: str, prop: str) -> list[dict]:
    """DQN / SAC shape classes.  `buffer` is the algorithm's buffer_size (split over nodes)."""
    dqn = dict(algo="DQN", kind="discrete", obs_kind="box", sgd=True, max_iter=6)
    sac = dict(algo="SAC", obs_kind="box", max_iter=6)
    collect = [
        dict(dqn, dims=[3], S=5, n=1, T=3, buffer=6, starts=2, batch=2, interval=2, epsilon=0.3, stack=["TimeLimit"]),
        dict(dqn, dims=[2], S=4, n=2, T=2, buffer=8, starts=0, batch=2, interval=3, epsilon=1.0, stack=["TimeLimit"], obs_kind="dict"),
        dict(dqn, dims=[4], S=6, n=3, T=1, buffer=9, starts=5, batch=3, interval=1, epsilon=0.0, stack=[]),
        dict(dqn, dims=[2], S=3, n=1, T=4, buffer=3, starts=1, batch=1, interval=4, epsilon=0.5, stack=["TimeLimit"], obs_kind="discrete"),
        dict(sac, kind="box", dims=[2, 2], S=4, n=2, T=2, buffer=8, starts=3, batch=4, pfreq=2, autotune=True, stack=["TimeLimit"]),
        dict(sac, kind="boxscalar", dims=[4], S=5, n=1, T=3, buffer=5, starts=2, batch=2, pfreq=1, autotune=False, stack=["TimeLimit"], obs_kind="tuple"),
        dict(sac, kind="box", dims=[2], S=4, n=3, T=1, buffer=12, starts=1, batch=3, pfreq=3, autotune=True, stack=[]),
        dict(sac, kind="box", dims=[2], S=4, n=2, T=2, buffer=8, starts=3, batch=4, pfreq=2, autotune=True, stack=["TimeLimit"], box_high="inf"),   # one-sided action box
    ]
    full = [  # batch == whole buffer from the first iteration on: the TD oracle applies
        dict(dqn, dims=[3], S=6, n=1, T=2, buffer=6, starts=6, batch=6, interval=2, epsilon=0.5, stack=["TimeLimit"]),
        dict(dqn, dims=[2], S=5, n=2, T=1, buffer=8, starts=4, batch=8, interval=3, epsilon=1.0, stack=["TimeLimit"]),
        dict(dqn, dims=[4], S=8, n=1, T=3, buffer=12, starts=12, batch=12, interval=1, epsilon=0.3, stack=[]),
        dict(sac, kind="box", dims=[2], S=5, n=1, T=2, buffer=6, starts=6, batch=6, pfreq=2, autotune=True, stack=["TimeLimit"]),
        dict(sac, kind="boxscalar", dims=[2], S=4, n=2, T=1, buffer=8, starts=4, batch=8, pfreq=1, autotune=False, stack=["TimeLimit"]),
        dict(sac, kind="box", dims=[2, 2], S=6, n=1, T=1, buffer=10, starts=10, batch=10, pfreq=3, autotune=True, stack=[]),
        dict(sac, kind="box", dims=[2], S=4, n=1, T=1, buffer=6, starts=6, batch=6, pfreq=3, autotune=False, stack=["TimeLimit"]),   # gating without autotune
        dict(sac, kind="boxscalar", dims=[4], S=5, n=2, T=2, buffer=8, starts=4, batch=8, pfreq=2, autotune=False, stack=[]),
        dict(sac, kind="box", dims=[2], S=4, n=1, T=2, buffer=6, starts=6, batch=6, pfreq=2, autotune=False, alpha_lr=0.01, stack=["TimeLimit"]),   # explicit alpha_lr must not switch tuning on
        dict(sac, kind="box", dims=[2], S=4, n=1, T=2, buffer=8, starts=1, batch=4, pfreq=2, autotune=True, stack=["TimeLimit"]),   # warm-up shorter than one batch: the schedule must not wait for a full batch
    ]
    # independence probe (C12): uniformly random behaviour that does not depend on the state, enough steps that two
    # nodes producing the same action stream by chance has probability <= 2^-48
    iid = [
        dict(dqn, dims=[4], S=5, n=3, T=2, buffer=96, starts=24, batch=4, interval=2, epsilon=1.0, stack=["TimeLimit"], iid_probe=True),
        dict(sac, kind="box", dims=[2], S=4, n=2, T=2, buffer=32, starts=8, batch=4, pfreq=2, autotune=True, stack=["TimeLimit"], iid_probe=True),
    ]
    if prop == "C07":
        out = full
    elif prop == "C10":
        out = full + collect[:1] + collect[4:6]
    elif prop == "C12":
        out = [c for c in collect + full if c["n"] > 1] + iid
    else:
        out = collect + full[:1] + full[3:4]
    if prop == "C05":
        # a learner that only implements the documented hooks and INHERITS the base-class reset / iteration
        out = out + [dict(dqn, dims=[3], S=5, n=1, T=3, buffer=8, starts=2, batch=2, interval=2, epsilon=0.5, stack=["TimeLimit"], base_learner=True),
                     dict(dqn, dims=[2], S=4, n=3, T=2, buffer=12, starts=3, batch=2, interval=2, epsilon=1.0, stack=["TimeLimit"], base_learner=True)]
    return out


def protocol(tier: str, prop: str) -> list[dict]:
    """Wrapper-stack programs (innermost wrapper first) over SimMDP variants."""
    TL, ID = ["TimeLimit"], ["Identity"]
    CA, RA, RA2, TA = ["ClipAction"], ["RescaleAction", -2.0, 2.0], ["RescaleAction", 0.0, 4.0], ["TransformAction"]
    CO, RO, FO, TO = ["ClipObservation"], ["RescaleObservation", 0.0, 1.0], ["FlattenObservation"], ["TransformObservation"]
    CR, TR = ["ClipReward", -1.0, 1.0], ["TransformReward"]
    d = dict(S=5, masked=False, obs_kind="box", D=3)
    base = [
        dict(d, kind="discrete", dims=[3], masked=True, stack=[]),
        dict(d, kind="discrete", dims=[3], masked=True, stack=[TL]),
        dict(d, kind="box", dims=[2], stack=[TL, RA, CA]),
        dict(d, kind="boxscalar", dims=[4], stack=[RA2, TL]),
        dict(d, kind="box", dims=[2, 2], stack=[CA, TL, TO]),
        dict(d, kind="discrete", dims=[2], obs_kind="dict", stack=[FO, TL]),
        dict(d, kind="multidiscrete", dims=[2, 2], masked=True, obs_kind="tuple", stack=[TL, FO, TO]),
        dict(d, kind="discrete", dims=[4], masked=True, stack=[TA, TL, ID]),
        dict(d, kind="box", dims=[2], stack=[TA, RA, TL]),
        dict(d, kind="discrete", dims=[2], stack=[TL, TL]),
        dict(d, kind="multibinary", dims=[2], masked=True, stack=[CO, RO, TL]),
        dict(d, kind="discrete", dims=[3], stack=[TR, TL]),
        dict(d, kind="box", dims=[2], stack=[TL, CR, RA]),
        dict(d, kind="discrete", dims=[2], obs_kind="discrete", stack=[ID, TL, FO]),
        dict(d, kind="boxscalar", dims=[2], stack=[TR, CR, TL, TO]),
        dict(d, kind="discrete", dims=[3], S=8, masked=True, stack=[TO, CO, TL, TR]),
        # one-sided action boxes under ClipAction: the finite side must still be clipped
        dict(d, kind="box", dims=[2], stack=[["HalfBoxHigh"], CA, TL]),
        dict(d, kind="boxscalar", dims=[4], stack=[["HalfBoxLow"], CA]),
    ]
    if prop == "C12":
        base = [base[i] for i in (1, 2, 4, 5, 6, 8, 10)]   # 5: Dict observations flattened (entry order is static structure)
    if tier == "quick":
        return base
    extra = [
        dict(d, kind="box", dims=[4], stack=[RA, RA2, TL, CA]),
        dict(d, kind="discrete", dims=[2], S=3, stack=[TL, ID, TL, ID]),
        dict(d, kind="multidiscrete", dims=[3, 2], masked=True, stack=[RO, TO, TL]),
        dict(d, kind="box", dims=[2, 2], obs_kind="dict", stack=[FO, TO, TL, CR]),
    ]
    return base + extra


def mask_query(tier: str, prop: str) -> list[dict]:
    d = dict(S=5, obs_kind="box")
    base = [
        dict(d, policy="table_ac", kind="discrete", dims=[4], K=32, L=12),
        dict(d, policy="table_ac", kind="multidiscrete", dims=[2, 3], K=32, L=10),
        dict(d, policy="table_ac", kind="multibinary", dims=[3], K=32, L=10),
        dict(d, policy="table_ac", kind="multidiscrete", dims=[2, 3, 2], K=32, L=10),   # >= 3 components: offsets of the flat mask matter
        dict(d, policy="mlp_ac", kind="multidiscrete", dims=[3, 2, 2], K=32, L=8),
        dict(d, policy="mlp_ac", kind="discrete", dims=[3], K=32, L=10),
        dict(d, policy="mlp_ac", kind="multidiscrete", dims=[2, 2], K=32, L=8),
        dict(d, policy="mlp_ac", kind="multibinary", dims=[2], K=32, L=8),
        dict(d, policy="qtable", kind="discrete", dims=[4], K=4096, L=3, epsilon=0.1),
        dict(d, policy="qtable", kind="discrete", dims=[3], K=4096, L=3, epsilon=1.0),
        dict(d, policy="qtable", kind="discrete", dims=[3], K=256, L=6, epsilon=0.0),
        dict(d, policy="mlp_q", kind="discrete", dims=[3], K=4096, L=3, epsilon=0.1),
        dict(d, policy="mlp_q", kind="discrete", dims=[4], K=4096, L=3, epsilon=0.5, obs_kind="dict"),
        # frequency probes (many keys per context): keyed sampling follows the reported JOINT law; equal-sized components
        dict(d, policy="table_ac", kind="multidiscrete", dims=[2, 2], K=2048, L=4),
        dict(d, policy="table_ac", kind="multidiscrete", dims=[3, 3], K=2048, L=4),
        dict(d, policy="mlp_ac", kind="multidiscrete", dims=[2, 2], K=2048, L=4),
        dict(d, policy="table_ac", kind="multibinary", dims=[2], K=2048, L=4),
        dict(d, policy="table_ac", kind="discrete", dims=[3], K=2048, L=4),
        # SAC policies (continuous actions, no masks): key-less = mode of the reported law, keyed log-prob = that law's log-prob
        dict(d, policy="mlp_sac", kind="box", dims=[2, 2], K=16, L=6),
        dict(d, policy="mlp_sac", kind="boxscalar", dims=[4], K=16, L=6),
        dict(d, policy="mlp_sac", kind="box", dims=[2], K=16, L=6, box_low=0.0, box_high=1.0),   # bounds NOT symmetric about zero
        # non-default (documented) network depths: the mask must be applied whatever the head looks like
        dict(d, policy="mlp_ac", kind="discrete", dims=[3], K=32, L=8, mlp_kwargs={"action_depth": 1}),
        dict(d, policy="mlp_ac", kind="multibinary", dims=[2], K=32, L=8, mlp_kwargs={"action_depth": 1, "value_depth": 1, "feature_depth": 1}),
        dict(d, policy="mlp_ac", kind="multidiscrete", dims=[2, 2], K=32, L=8, mlp_kwargs={"action_depth": 3, "feature_depth": 1}),
        # laws built from probabilities (`probs=`) instead of logits: masking must work for both parameterisations
        dict(d, policy="table_ac", kind="multibinary", dims=[3], K=32, L=10, use_probs=True),
        dict(d, policy="table_ac", kind="discrete", dims=[4], K=32, L=10, use_probs=True),
    ]
    if tier == "quick":
        return base
    return base + [
        dict(d, policy="table_ac", kind="discrete", dims=[2], S=3, K=64, L=16),
        dict(d, policy="mlp_ac", kind="discrete", dims=[4], K=32, L=10, obs_kind="tuple"),
        dict(d, policy="mlp_q", kind="discrete", dims=[2], K=4096, L=3, epsilon=0.02),
    ]


def ring(tier: str, prop: str) -> list[dict]:
    replay = [
        dict(mode="replay", C=1, nodes=1, obs_kind="box", act_kind="discrete"),
        dict(mode="replay", C=3, nodes=1, obs_kind="dict", act_kind="box"),
        dict(mode="replay", C=5, nodes=2, obs_kind="box", act_kind="discrete"),
        dict(mode="replay", C=4, nodes=3, obs_kind="tuple", act_kind="box"),
        dict(mode="replay", C=8, nodes=1, obs_kind="discrete", act_kind="discrete"),
        dict(mode="replay", C=2, nodes=4, obs_kind="box", act_kind="box"),
        dict(mode="replay", C=12, nodes=2, obs_kind="dict", act_kind="discrete"),
    ]
    rollout = [
        dict(mode="rollout", n=1, T=7, B=3, obs_kind="box", act_kind="discrete"),
        dict(mode="rollout", n=3, T=5, B=4, obs_kind="dict", act_kind="box"),
        dict(mode="rollout", n=4, T=4, B=16, obs_kind="tuple", act_kind="discrete"),
        dict(mode="rollout", n=2, T=8, B=5, obs_kind="discrete", act_kind="box"),
        dict(mode="rollout", n=4, T=16, B=7, obs_kind="box", act_kind="box"),
        dict(mode="rollout", n=1, T=1, B=1, obs_kind="box", act_kind="discrete"),
    ]
    if prop == "C06":
        return replay
    if prop == "C09":
        return rollout
    if prop == "C12":
        return [r for r in rollout if r["n"] > 1] + [r for r in replay if r["nodes"] > 1]   # views of an N-environment rollout / joint samples of N per-environment replay buffers
    return replay + rollout


def update(tier: str, prop: str) -> list[dict]:
    base = [
        dict(algo="PPO", n=1, T=7, E=1, nb=2),     # N=7,  B=3: one dropped
        dict(algo="PPO", n=3, T=5, E=3, nb=2),     # N=15, B=7: one dropped, 3 epochs
        dict(algo="PPO", n=4, T=4, E=2, nb=4),     # N=16, B=4: exact partition
        dict(algo="PPO", n=2, T=8, E=4, nb=3),     # N=16, B=5
        dict(algo="PPO", n=1, T=5, E=1, nb=1),     # single batch
        dict(algo="PPO", n=2, T=5, E=2, nb=4),     # N=10, B=floor(10/4)=2: FIVE minibatches per epoch although num_batches=4
        dict(algo="A2C", n=3, T=4),
        dict(algo="REINFORCE", n=2, T=6),
    ]
    if tier == "quick":
        return base
    return base + [dict(algo="PPO", n=4, T=16, E=3, nb=9), dict(algo="PPO", n=2, T=3, E=3, nb=1), dict(algo="A2C", n=1, T=9)]


def storage(tier: str, prop: str) -> list[dict]:
    base = [
        dict(policy="ac", kind="discrete", dims=[3], obs_kind="box", alt_kind="discrete", alt_dims=[4], alt_obs_kind="box"),
        dict(policy="ac", kind="box", dims=[2, 2], obs_kind="dict", alt_kind="box", alt_dims=[2], alt_obs_kind="dict"),
        dict(policy="ac", kind="multidiscrete", dims=[2, 3], obs_kind="tuple", alt_kind="multidiscrete", alt_dims=[3, 3], alt_obs_kind="tuple"),
        dict(policy="ac", kind="multibinary", dims=[3], obs_kind="box", alt_kind="multibinary", alt_dims=[3], alt_obs_kind="box", alt_D=5),
        dict(policy="ac", kind="boxscalar", dims=[2], obs_kind="box", alt_kind="box", alt_dims=[2, 2], alt_obs_kind="box"),
        dict(policy="q", kind="discrete", dims=[3], obs_kind="box", alt_kind="discrete", alt_dims=[5], alt_obs_kind="box"),
        dict(policy="q", kind="discrete", dims=[2], obs_kind="dict", alt_kind="discrete", alt_dims=[2], alt_obs_kind="dict", alt_D=4),
        dict(policy="sac", kind="box", dims=[2, 2], obs_kind="box", alt_kind="box", alt_dims=[2, 2, 2], alt_obs_kind="box"),
        dict(policy="sac", kind="boxscalar", dims=[2], obs_kind="tuple", alt_kind="box", alt_dims=[2], alt_obs_kind="tuple"),
    ]
    return base


def train(tier: str, prop: str) -> list[dict]:
    """(algorithm, environment, observer set).  `totals`: total_timesteps values (static => one compile each)."""
    def c(algo, env, n, T, observer, totals, **kw):
        return dict(algo=algo, env=env, n=n, T=T, observer=observer, totals=totals, **kw)

    base = [
        c("PPO", "sim_discrete", 2, 8, "rec2", [47, 17]),      # 2*16+15 and 16+1: largest and smallest remainder
        c("PPO", "cartpole", 2, 6, "video", [35], video_interval=1),   # 2*12+11
        c("A2C", "sim_discrete", 3, 4, "list", [35, 13]),        # 2*12+11 and 12+1
        c("REINFORCE", "sim_box", 1, 8, "console", [20]),
        c("DQN", "sim_discrete", 2, 2, "rec1", [23, 9], starts=4),   # 5*4+3 and 2*4+1
        c("DQN", "cartpole", 1, 3, "tb", [14], starts=5),
        c("SAC", "sim_box", 2, 1, "rec2", [9, 4], starts=3),
        c("SAC", "pendulum", 1, 2, "progress", [11], starts=4),
        c("A2C", "cartpole", 2, 5, "video", [39], video_interval=2),   # 3*10+9
        c("PPO", "sim_box", 1, 10, "clock", [35]),
        c("PPO", "gym_peer", 1, 6, "rec1", [24]),      # Gymnasium peer with hidden RNG state behind GymToLeraxEnv
        c("DQN", "gym_peer", 1, 3, "rec1", [15], starts=4),
        c("PPO", "gym_peer", 1, 6, "video", [24], video_interval=1),   # the recorder thread must never drive the peer that is being trained on
        # warm-up shorter than one batch (learning_starts * num_envs < batch_size): legal, two options interacting
        c("DQN", "sim_discrete", 1, 3, "rec1", [14], starts=2),
        c("SAC", "sim_box", 1, 2, "list", [9], starts=1),
        # non-default documented flags, trained AFTER a default instance in the same process and compared with a fresh interpreter
        c("PPO", "sim_discrete", 2, 4, "rec1", [17], p_fresh=0.5, prior_history=True, algo_kwargs={"normalize_advantages": False, "clip_value_loss": True}),
        c("PPO", "sim_dict", 2, 4, "rec1", [17], p_fresh=0.5),    # Dict observations with many string keys, often re-run in a fresh interpreter
        c("DQN", "sim_dict", 1, 3, "list", [13], starts=3, p_fresh=0.5),
    ]
    if prop in ("C11", "C02"):
        base = ([] if prop == "C02" else base) + [dict(mode="ctor_purity", algo="none", env="ctor", n=0, T=0, observer="none", totals=[0],
                            envs=["G1Standing", "G1Locomotion", "G1Standup", "CartPole", "Pendulum", "Acrobot", "MountainCar", "ContinuousMountainCar",
                                  "Ant", "HalfCheetah", "Hopper", "Humanoid", "HumanoidStandup", "InvertedPendulum", "InvertedDoublePendulum",
                                  "Pusher", "Reacher", "Swimmer", "Walker2d"])]
    if prop == "C10":
        base = [b for b in base if b["observer"] in ("rec1", "rec2", "list", "console", "tb", "clock", "video")]
    if prop == "C19":
        base = [b for b in base if b["observer"] in ("rec1", "rec2", "list", "video", "console", "tb")]
    if tier == "quick" or prop == "C02":
        return base
    return base + [
        c("REINFORCE", "cartpole", 2, 7, "rec1", [29, 14]),
        c("DQN", "sim_discrete", 1, 4, "video" if False else "list", [33], starts=0),
        c("SAC", "sim_box", 3, 2, "tb", [20], starts=6),
    ]


def evalhelper(tier: str, prop: str) -> list[dict]:
    d = dict(masked=False, obs_kind="box")
    return [
        dict(d, kind="discrete", dims=[3], S=5, stack=["TimeLimit"], episodes=1, cap=4),
        dict(d, kind="discrete", dims=[2], S=4, stack=["TimeLimit"], episodes=3, cap=None),
        dict(d, kind="box", dims=[2], S=4, stack=["TimeLimit"], episodes=2, cap=12),
        dict(d, kind="multidiscrete", dims=[2, 2], S=4, stack=[], episodes=4, cap=6),
        dict(d, kind="discrete", dims=[4], S=6, stack=["TimeLimit", "Identity"], episodes=2, cap=1),
    ]


def peers(tier: str, prop: str) -> list[dict]:
    base = [
        dict(mode="gym_direct", S=5, A=3),
        dict(mode="gym_collect_on", S=5, A=2, T=6),
        dict(mode="gym_collect_off", S=5, A=3, T=3, starts=4),
        dict(mode="lerax_to_gym", S=5, A=3, stack=["TimeLimit"]),
        dict(mode="lerax_to_gym", S=4, A=2, stack=[]),
        dict(mode="lerax_to_gym_cont", S=0, A=2, limit=3),   # continuous initial states: every auto-reset must draw a NEW one
        dict(mode="lerax_to_gymnax", S=5, A=3, stack=["TimeLimit"]),
        dict(mode="gymnax_to_lerax", S=0, A=2),
        # non-default Gymnax parameters that the RESET depends on (start position at the centre, smaller goal circle, short episodes)
        dict(mode="gymnax_to_lerax", S=0, A=2, gx="PointRobot-misc", params={"center_init": True, "circle_radius": 0.5, "max_steps_in_episode": 6}),
    ]
    if prop == "C10":
        return [b for b in base if b["mode"].startswith("gym_collect")]
    if prop == "C01":
        return [b for b in base if b["mode"] in ("gym_direct", "lerax_to_gym", "lerax_to_gym_cont", "gymnax_to_lerax")]
    return base


def rollout(tier: str, prop: str) -> list[dict]:
    TL = ["TimeLimit", 60]
    classic = [
        dict(env="CartPole", L=700, eager=True),   # long enough for the cruise controller to reach twice the track limit
        dict(env="CartPole", L=300, kwargs={"tsit5": True}, stack=[["TimeLimit", 25]]),
        dict(env="MountainCar", L=900, stack=[["TimeLimit", 300]]),
        dict(env="ContinuousMountainCar", L=900, stack=[["TimeLimit", 400], ["RescaleAction", -2.0, 2.0]], eager=True),
        dict(env="Acrobot", L=600, stack=[["TimeLimit", 300]]),
        # non-default goal condition: with a minimum goal velocity near the speed limit the car passes the flag WITHOUT terminating
        # and reaches the right wall (with the default configuration the right wall lies behind a terminal state)
        dict(env="ContinuousMountainCar", L=900, kwargs={"goal_velocity": 0.069}, stack=[["TimeLimit", 400]]),
        dict(env="Pendulum", L=500, stack=[["TimeLimit", 50], ["ClipAction"]]),
        dict(env="Pendulum", L=300, kwargs={"tsit5": True}, stack=[["ClipObservation"], ["TimeLimit", 40], ["ClipReward", -1.0, 1.0]]),
        dict(env="Acrobot", L=300, kwargs={"tsit5": True}),
    ]
    # every pass-through wrapper kind OUTSIDE a wrapper that changes the observation space: the declared space of the
    # stack must be the rescaled one, not the base environment's
    outer = [
        dict(env="MountainCar", L=600, stack=[["RescaleObservation", -1.0, 1.0], ["TimeLimit", 300]]),
        dict(env="Pendulum", L=300, stack=[["RescaleObservation", -5.0, 5.0], ["ClipAction"], ["TimeLimit", 50], ["ClipReward", -2.0, 0.0]]),
        dict(env="ContinuousMountainCar", L=600, stack=[["RescaleObservation", 0.0, 10.0], ["RescaleAction", -2.0, 2.0], ["Identity"], ["TimeLimit", 300]]),
        dict(env="Acrobot", L=300, stack=[["RescaleObservation", 2.0, 3.0], ["TimeLimit", 100], ["FlattenObservation"], ["Identity"]]),
        # partly unbounded inner space: per-dimension targets that are infinite exactly where the inner bounds are
        dict(env="CartPole", L=300, stack=[["RescaleObservation", [-1.0, "-inf", -1.0, "-inf"], [1.0, "inf", 1.0, "inf"]], ["TimeLimit", 60]]),
        # action ranges that are NOT centred on zero and not of the inner width (non-zero intercept and non-unit gradient of the affine map)
        dict(env="Pendulum", L=200, stack=[["RescaleAction", 0.0, 1.0], ["TimeLimit", 50]]),
        dict(env="ContinuousMountainCar", L=300, kwargs={"min_action": 0.0, "max_action": 1.0}, stack=[["RescaleAction", -1.0, 3.0], ["ClipAction"], ["TimeLimit", 150]]),
    ]
    mj_quick = [
        dict(env="InvertedPendulum", L=150, stack=[["TimeLimit", 40]]),
        dict(env="Reacher", L=100, stack=[["TimeLimit", 25], ["ClipAction"]]),
        dict(env="HalfCheetah", L=80, stack=[["TimeLimit", 40]]),
    ]
    mj_rest = [
        dict(env="Ant", L=80, stack=[["TimeLimit", 40]]),
        dict(env="Hopper", L=100, stack=[["TimeLimit", 50]]),
        dict(env="Humanoid", L=50, stack=[["TimeLimit", 25]]),
        dict(env="HumanoidStandup", L=50, stack=[["TimeLimit", 25]]),
        dict(env="InvertedDoublePendulum", L=150, stack=[["TimeLimit", 40], ["RescaleAction", -2.0, 2.0]]),
        dict(env="Pusher", L=80, stack=[["TimeLimit", 40]]),
        dict(env="Swimmer", L=100, stack=[["TimeLimit", 50]]),
        dict(env="Walker2d", L=100, stack=[["TimeLimit", 50], ["FlattenObservation"]]),
    ]
    g1 = [
        dict(env="G1Standing", L=30, stack=[["TimeLimit", 15]]),
        dict(env="G1Locomotion", L=30, stack=[["TimeLimit", 15]]),
        dict(env="G1Standup", L=30, stack=[["TimeLimit", 15]]),
    ]
    X, CI, CV, QF, CF = ("exclude_current_positions_from_observation", "include_cinert_in_observation", "include_cvel_in_observation",
                         "include_qfrc_actuator_in_observation", "include_cfrc_ext_in_observation")
    ctor = [
        dict(env="Humanoid", mode="ctor", flags=[X, CI, CV, QF, CF]),
        dict(env="HumanoidStandup", mode="ctor", flags=[X, CI, CV, QF, CF]),
        dict(env="Ant", mode="ctor", flags=[X, CF]),
        dict(env="HalfCheetah", mode="ctor", flags=[X]),
        dict(env="Hopper", mode="ctor", flags=[X]),
        dict(env="Swimmer", mode="ctor", flags=[X]),
        dict(env="Walker2d", mode="ctor", flags=[X]),
    ]
    if prop == "C12":
        cl = [dict(c, eager=True) for c in classic]  # one eager step per run: every classic-control environment in all three modes
        return cl + mj_quick[:2] if tier == "quick" else cl + mj_quick + mj_rest[:3]
    if prop == "C01":
        return classic[:5] + mj_quick[:1] if tier == "quick" else classic + mj_quick + mj_rest
    # slowest compiles first (G1 ~2 min, MuJoCo 30-60 s) so that they overlap with everything else
    return g1 + mj_rest + mj_quick + classic + outer + ctor


def g1(tier: str, prop: str) -> list[dict]:
    clock = [dict(mode="clock", n=200000), dict(mode="clock", n=1000000), dict(mode="clock", n=2000)]   # the accumulated-rounding allowance grows with n: the short clock is the tight one
    # Every configured range is DISJOINT from the library default, so a range that is not passed through to the
    # randomiser / sampler (and silently falls back to a default) cannot hide inside a superset.
    shifted = {"friction_range": [1.2, 1.5], "friction_loss_scale_range": [2.5, 3.0], "armature_scale_range": [1.1, 1.2],
               "mass_scale_range": [1.2, 1.3], "torso_offset_range": [3.0, 4.0]}
    loco = dict(shifted, lin_vel_x_range=[1.5, 2.0], lin_vel_y_range=[0.6, 0.8], ang_vel_yaw_range=[1.2, 1.5], gait_frequency_range=[2.0, 2.5])
    tasks = [
        dict(mode="task", env="G1Locomotion", K=8, L=20, kwargs=dict(loco, control_frequency_hz=25.0)),   # dt = 0.04: the phase advances by 2*pi*f*dt of THIS environment
        dict(mode="task", env="G1Standing", K=8, L=16, kwargs=shifted),
        # single-point ranges (lo == hi) whose value differs from nominal: "degenerate" must not mean "disabled"
        dict(mode="task", env="G1Standup", K=8, L=16, kwargs={"friction_range": [0.8, 0.8], "friction_loss_scale_range": [1.5, 1.5],
                                                              "armature_scale_range": [1.2, 1.2], "mass_scale_range": [1.1, 1.1], "torso_offset_range": [2.0, 2.0]}),
        # every episode gets the documented all-zero "stand still" command: the gait clock must keep running
        dict(mode="task", env="G1Locomotion", K=4, L=14, kwargs={"zero_command_probability": 1.0}),
    ]
    defaults = [
        dict(mode="task", env="G1Locomotion", K=8, L=20),
        dict(mode="task", env="G1Standing", K=8, L=16),
        dict(mode="task", env="G1Standup", K=8, L=16),
    ]
    if tier == "quick":
        return clock[:1] + clock[2:] + tasks
    swarm = [
        dict(mode="task", env="G1Locomotion", K=16, L=40, kwargs={"friction_range": [0.6, 0.6], "mass_scale_range": [1.0, 1.0], "torso_offset_range": [0.0, 0.5],
                                                                  "lin_vel_x_range": [0.2, 0.4], "gait_frequency_range": [2.0, 2.0]}),
        dict(mode="task", env="G1Locomotion", K=16, L=40, kwargs={"friction_loss_scale_range": [0.1, 4.0], "armature_scale_range": [0.9, 1.2], "control_frequency_hz": 25.0}),
        dict(mode="task", env="G1Standing", K=16, L=30, kwargs={"friction_range": [0.1, 2.0], "mass_scale_range": [0.5, 1.5]}),
        dict(mode="task", env="G1Standup", K=16, L=30, kwargs=shifted),
    ]
    return clock + tasks + defaults + swarm
