"""Shape classes of every scenario — plain data, importable without JAX (the parent
process of a check never imports JAX)."""

from __future__ import annotations


def classes(name: str, tier: str, prop: str) -> list[dict]:
    return globals()[name](tier, prop)


def collect_on(tier: str, prop: str) -> list[dict]:
    """Shape classes (static knobs).  Everything else is data and never recompiles."""
    base = [
        dict(algo="PPO", kind="discrete", dims=[3], S=5, masked=True, n=2, T=5, stack=["TimeLimit"], obs_kind="box"),
        dict(algo="PPO", kind="box", dims=[2], S=4, masked=False, n=2, T=4, stack=["TimeLimit"], obs_kind="box"),
        dict(algo="A2C", kind="discrete", dims=[2], S=4, masked=False, n=1, T=6, stack=["TimeLimit"], obs_kind="dict"),
        dict(algo="REINFORCE", kind="multidiscrete", dims=[2, 2], S=4, masked=True, n=3, T=3, stack=[], obs_kind="box"),
        dict(algo="PPO", kind="multibinary", dims=[2], S=4, masked=True, n=1, T=8, stack=["TimeLimit", "Identity"], obs_kind="tuple"),
        dict(algo="A2C", kind="boxscalar", dims=[4], S=5, masked=False, n=4, T=2, stack=["TimeLimit"], obs_kind="box"),
        dict(algo="PPO", kind="discrete", dims=[4], S=7, masked=True, n=4, T=1, stack=["TimeLimit"], obs_kind="discrete"),
        dict(algo="REINFORCE", kind="box", dims=[2, 2], S=3, masked=False, n=1, T=16, stack=["TimeLimit"], obs_kind="box"),
    ]
    if prop == "C12":
        base = [c for c in base if c["n"] > 1]
    if prop == "C16":
        base = [c for c in base if c["masked"]]
    if tier == "quick":
        return base
    extra = [
        dict(algo="A2C", kind="discrete", dims=[3], S=8, masked=True, n=3, T=7, stack=["Identity", "TimeLimit"], obs_kind="box"),
        dict(algo="PPO", kind="boxscalar", dims=[2], S=6, masked=False, n=2, T=9, stack=[], obs_kind="dict"),
        dict(algo="REINFORCE", kind="multibinary", dims=[3], S=6, masked=True, n=2, T=5, stack=["TimeLimit"], obs_kind="box"),
        dict(algo="PPO", kind="multidiscrete", dims=[3, 2], S=6, masked=True, n=2, T=6, stack=["TimeLimit"], obs_kind="tuple"),
        dict(algo="A2C", kind="box", dims=[4], S=8, masked=False, n=3, T=5, stack=["TimeLimit"], obs_kind="box"),
        dict(algo="PPO", kind="discrete", dims=[2], S=3, masked=False, n=1, T=12, stack=["TimeLimit"], obs_kind="box"),
    ]
    if prop == "C12":
        extra = [c for c in extra if c["n"] > 1]
    if prop == "C16":
        extra = [c for c in extra if c["masked"]]
    return base + extra


