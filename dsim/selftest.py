"""Self-tests of the simulator itself.

    python -m dsim.selftest determinism [--seeds N] [--scenarios a,b,...]

For every scenario (first shape classes), N seeds are executed twice in one process and once
more in fresh interpreters under PYTHONHASHSEED in {0, 1, random}; all trace digests per seed
must be equal.  A mismatch is a harness failure (exit 2), never a property violation.
"""

from __future__ import annotations

import json
import os
import subprocess
import sys
import time

sys.path.insert(0, os.path.dirname(os.path.dirname(os.path.abspath(__file__))))

from dsim import kernel as K  # noqa: E402

SCENARIOS = {
    "collect_on": ("C04", 3), "offpolicy": ("C05", 3), "protocol": ("C13", 3), "mask_query": ("C16", 2), "ring": ("C06", 3),
    "update": ("C09", 2), "storage": ("C18", 2), "evalhelper": ("C19", 2), "peers": ("C13", 3), "train": ("C11", 1), "rollout": ("C02", 2), "g1": ("C20", 1),
}


def digests(scenario: str, prop: str, n_classes: int, seeds: int, twice: bool) -> dict:
    from dsim import driver
    from dsim.classes import classes

    driver._worker_init()
    out = {}
    for ci, cls in enumerate(classes(scenario, "quick", prop)[:n_classes]):
        runner = driver.get_runner(scenario, cls)
        for i in range(seeds):
            seed = K.derive(12345, scenario, ci, i)
            import random

            plan = runner.gen(random.Random(seed), prop)
            plan["seed"] = seed
            res, err = driver.execute_guarded(runner, plan, prop)
            if err is not None:
                raise RuntimeError(err)
            d = res.trace.digest()
            if twice:
                res2, _ = driver.execute_guarded(runner, plan, prop)
                if res2.trace.digest() != d:
                    d = "MISMATCH-IN-PROCESS"
            out[f"{scenario}/{ci}/{i}"] = d
    return out


def main(argv=None) -> int:
    argv = sys.argv[1:] if argv is None else argv
    if not argv or argv[0] not in ("determinism", "_child"):
        print(__doc__)
        return 2
    seeds = 6
    names = list(SCENARIOS)
    for i, a in enumerate(argv):
        if a == "--seeds":
            seeds = int(argv[i + 1])
        if a == "--scenarios":
            names = argv[i + 1].split(",")
    if argv[0] == "_child":
        out = {}
        for n in names:
            prop, nc = SCENARIOS[n]
            out.update(digests(n, prop, nc, seeds, twice=False))
        print("DIGESTS " + json.dumps(out))
        return 0
    t0 = time.time()
    base = {}
    for n in names:
        prop, nc = SCENARIOS[n]
        base.update(digests(n, prop, nc, seeds, twice=True))
    bad = [k for k, v in base.items() if v == "MISMATCH-IN-PROCESS"]
    report = {"runs": len(base), "in_process_mismatches": bad, "fresh": {}}
    for hs in ("0", "1", "random"):
        env = dict(os.environ)
        if hs == "random":
            env.pop("PYTHONHASHSEED", None)
        else:
            env["PYTHONHASHSEED"] = hs
        p = subprocess.run([sys.executable, "-m", "dsim.selftest", "_child", "--seeds", str(seeds), "--scenarios", ",".join(names)], capture_output=True, text=True, env=env,
                           cwd=K.VERIF_ROOT, timeout=3600)
        got = None
        for line in p.stdout.splitlines():
            if line.startswith("DIGESTS "):
                got = json.loads(line[8:])
        if got is None:
            report["fresh"][hs] = "child failed: " + p.stderr[-500:]
            bad.append(f"child-{hs}")
            continue
        diff = [k for k in base if got.get(k) != base[k]]
        report["fresh"][hs] = {"compared": len(base), "mismatches": diff}
        bad += diff
    report["wall_s"] = round(time.time() - t0, 1)
    print(json.dumps(report, indent=1))
    return 2 if bad else 0


if __name__ == "__main__":
    sys.exit(main())
