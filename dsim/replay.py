"""Replay a violation file in a fresh interpreter:  python -m dsim.replay <file>

Re-executes the stored (minimised) plan against the current /repo tree.  Exit 1 and a
VIOLATION line if the same signature occurs again (digest equality is reported), exit 0
if the plan now passes, exit 2 on harness trouble.
"""

from __future__ import annotations

import json
import os
import sys

sys.path.insert(0, os.path.dirname(os.path.dirname(os.path.abspath(__file__))))


def main(argv=None) -> int:
    argv = sys.argv[1:] if argv is None else argv
    if len(argv) != 1:
        print("usage: python -m dsim.replay <replay.json>", file=sys.stderr)
        return 2
    with open(argv[0]) as f:
        doc = json.load(f)
    from dsim import driver

    driver._worker_init()
    prop = doc["property"]
    sig = tuple(doc["signature"])
    if doc.get("plan") is None:
        try:
            driver.get_runner(doc["scenario"], doc["cls"])
        except Exception as exc:  # noqa: BLE001
            print(f"VIOLATION property={prop} replay={argv[0]} (build crash reproduced: {type(exc).__name__})")
            return 1
        print("not reproduced: runner builds")
        return 0
    runner = driver.get_runner(doc["scenario"], doc["cls"])
    res, err = driver.execute_guarded(runner, doc["plan"], prop)
    if err is not None:
        print("harness error:\n" + err, file=sys.stderr)
        return 2
    sigs = driver.signatures(res, prop)
    same_digest = res.trace.digest() == doc.get("trace_digest")
    if sig in sigs:
        v = next(v for v in res.verdicts if v.signature == sig)
        print(f"VIOLATION property={prop} replay={argv[0]} signature={'/'.join(sig)} digest_match={same_digest}")
        print(json.dumps(v.to_json(), indent=1)[:3000])
        return 1
    print(f"not reproduced: signature {'/'.join(sig)} absent; verdicts now: {sigs}; digest_match={same_digest}")
    return 0


if __name__ == "__main__":
    sys.exit(main())
