"""Table policies for SimMDP: every output is a known function of the state id and the
policy's own step counter, so recorded values/log-probs/actions can be checked against a
NumPy reference.  They use lerax's *real* distribution classes.
"""

from __future__ import annotations

from typing import Any, ClassVar

import equinox as eqx
import jax
from jax import lax
from jax import numpy as jnp
from jax import random as jr
from jaxtyping import Array, Float, Int, Key

from lerax.distribution import (
    Bernoulli,
    Categorical,
    MultiCategorical,
    MultivariateNormalDiag,
    Normal,
    SquashedMultivariateNormalDiag,
    SquashedNormal,
)
from lerax.policy import (
    AbstractActorCriticPolicy,
    AbstractPolicyState,
    AbstractQPolicy,
    AbstractSACPolicy,
)

from .mdp import obs_id

KB = 3  # rows of the policy-state bias table


class SimPolicyState(AbstractPolicyState):
    """Policy state = number of policy calls since ``reset`` (observable restart)."""

    k: Int[Array, ""]


class SimTablePolicy(AbstractActorCriticPolicy):
    """Actor-critic table policy.

    logits(s, k) = logits[s] + kbias[min(k, KB-1)]   (discrete kinds)
    loc(s, k)    = loc[s] + kbias[min(k, KB-1), :d]   (box kinds), scale[s]
    value(s)     = values[s]
    """

    name: ClassVar[str] = "SimTablePolicy"
    action_space: Any
    observation_space: Any

    logits: Float[Array, "NS L"]
    kbias: Float[Array, "KB L"]
    values: Float[Array, " NS"]
    vbias: Float[Array, " KB"]
    scale: Float[Array, "NS d"]

    kind: str = eqx.field(static=True)
    comps: tuple[int, ...] = eqx.field(static=True)
    use_probs: bool = eqx.field(static=True, default=False)   # build the law from probabilities (documented `probs=`) instead of logits

    def __init__(self, env, tables, use_probs: bool = False):
        inner = env.unwrapped
        self.kind = inner.kind
        self.comps = inner.comps
        self.use_probs = use_probs
        self.action_space = env.action_space
        self.observation_space = env.observation_space
        self.logits = jnp.asarray(tables["logits"], dtype=float)
        self.kbias = jnp.asarray(tables["kbias"], dtype=float)
        self.values = jnp.asarray(tables["values"], dtype=float)
        self.vbias = jnp.asarray(tables.get("vbias", [0.0] * KB), dtype=float)
        self.scale = jnp.asarray(tables["scale"], dtype=float)

    def reset(self, *, key: Key[Array, ""]) -> SimPolicyState:
        return SimPolicyState(jnp.array(0, dtype=int))

    def _value(self, state: SimPolicyState, observation):
        # the critic depends on the policy's own state too, so WHICH policy state a value is computed with is observable
        return self.values[obs_id(observation)] + self.vbias[jnp.minimum(state.k, KB - 1)]

    def _dist(self, state: SimPolicyState, observation, action_mask=None):
        s = obs_id(observation)
        kb = self.kbias[jnp.minimum(state.k, KB - 1)]
        p = self.logits[s] + kb
        if self.kind == "discrete":
            d = Categorical(probs=jax.nn.softmax(p)) if self.use_probs else Categorical(logits=p)
        elif self.kind == "multidiscrete":
            d = MultiCategorical(p, action_dims=self.comps)
        elif self.kind == "multibinary":
            d = Bernoulli(probs=jax.nn.sigmoid(p)) if self.use_probs else Bernoulli(logits=p)
        elif self.kind == "box":
            return MultivariateNormalDiag(loc=p, scale_diag=self.scale[s])
        elif self.kind == "boxscalar":
            return Normal(loc=p[0], scale=self.scale[s, 0])
        else:
            raise ValueError(self.kind)
        if action_mask is not None:
            d = d.mask(action_mask)
        return d

    def __call__(self, state, observation, *, key=None, action_mask=None):
        d = self._dist(state, observation, action_mask)
        action = d.mode() if key is None else d.sample(key)
        return SimPolicyState(state.k + 1), action

    def action_and_value(self, state, observation, *, key, action_mask=None):
        d = self._dist(state, observation, action_mask)
        action, log_prob = d.sample_and_log_prob(key)
        value = self._value(state, observation)
        return SimPolicyState(state.k + 1), action, value, log_prob.sum().squeeze()

    def evaluate_action(self, state, observation, action, *, action_mask=None):
        d = self._dist(state, observation, action_mask)
        log_prob = d.log_prob(action)
        value = self._value(state, observation)
        try:
            entropy = d.entropy().sum().squeeze()
        except NotImplementedError:
            entropy = -log_prob.mean().squeeze()
        return SimPolicyState(state.k + 1), value, log_prob.sum().squeeze(), entropy

    def value(self, state, observation):
        return SimPolicyState(state.k + 1), self._value(state, observation)


def gen_policy_tables(rng, *, NS: int, kind: str, comps: tuple[int, ...], oob: float = 0.0) -> dict:
    """Draw table-policy parameters.  ``oob``: probability that a box policy's scale is
    large enough to leave the action bounds often (E.oob_action)."""
    if kind == "discrete":
        L = comps[0]
    elif kind == "multidiscrete":
        L = sum(comps)
    elif kind == "multibinary":
        L = len(comps)
    else:
        L = len(comps)
    style = rng.choice(["smooth", "peaked", "ties"])

    def logit():
        if style == "smooth":
            return rng.randint(-8, 8) / 4.0
        if style == "peaked":
            return rng.choice([-6.0, 0.0, 6.0])
        return rng.choice([0.0, 0.0, 1.0])

    if kind in ("box", "boxscalar"):
        logits = [[rng.randint(-8, 8) / 8.0 for _ in range(L)] for _ in range(NS)]
        big = rng.random() < oob
        scale = [[rng.choice([1.0, 2.0, 4.0]) if big else rng.choice([0.125, 0.25, 0.5]) for _ in range(L)] for _ in range(NS)]
    else:
        logits = [[logit() for _ in range(L)] for _ in range(NS)]
        scale = [[1.0] * L for _ in range(NS)]
    kb_mag = rng.choice([0.0, 0.5, 1.0])
    kbias = [[0.0] * L] + [[rng.randint(-4, 4) / 4.0 * kb_mag for _ in range(L)] for _ in range(KB - 1)]
    # values pairwise >= 0.25 apart
    vals = rng.sample(range(-16, 17), NS)
    values = [v / 4.0 for v in vals]
    vb = rng.choice([0.0, 0.0, 1.0])
    vbias = [0.0] + [rng.randint(-8, 8) / 8.0 * vb for _ in range(KB - 1)]
    return {"logits": logits, "kbias": kbias, "values": values, "vbias": vbias, "scale": scale}


def with_policy_tables(policy: SimTablePolicy, tables: dict) -> SimTablePolicy:
    fields = ["logits", "kbias", "values", "vbias", "scale"]
    tables = dict(tables)
    tables.setdefault("vbias", [0.0] * KB)
    new = [jnp.asarray(tables[f], dtype=float) for f in fields]
    return eqx.tree_at(lambda p: [getattr(p, f) for f in fields], policy, new)


# --------------------------------------------------------------------------- Q policy


class SimQTable(AbstractQPolicy):
    """Tabular Q policy: q_values(obs) = q[state id].  State counts calls since reset."""

    name: ClassVar[str] = "SimQTable"
    action_space: Any
    observation_space: Any
    epsilon: float
    q: Float[Array, "NS A"]
    qbias: Float[Array, "KB A"]  # constant: Q-values depend on the policy's own state too (which state a network is evaluated with is observable)

    def __init__(self, env, q, epsilon: float = 0.0, qbias=None):
        self.action_space = env.action_space
        self.observation_space = env.observation_space
        self.epsilon = epsilon
        self.q = jnp.asarray(q, dtype=float)
        self.qbias = jnp.zeros((KB, self.q.shape[1])) if qbias is None else jnp.asarray(qbias, dtype=float)

    def reset(self, *, key: Key[Array, ""]) -> SimPolicyState:
        return SimPolicyState(jnp.array(0, dtype=int))

    def q_values(self, state, observation):
        return SimPolicyState(state.k + 1), self.q[obs_id(observation)] + lax.stop_gradient(self.qbias[jnp.minimum(state.k, KB - 1)])


# --------------------------------------------------------------------------- SAC policy


class SimSACPolicy(AbstractSACPolicy):
    """SAC table policy: squashed normal with loc[s], scale[s] (real lerax distribution).

    ``state`` may be ``None`` (SAC's update calls the policy with ``None``).
    """

    name: ClassVar[str] = "SimSACPolicy"
    action_space: Any
    observation_space: Any
    loc: Float[Array, "NS d"]
    scale: Float[Array, "NS d"]
    scalar: bool = eqx.field(static=True)

    def __init__(self, env, tables):
        self.action_space = env.action_space
        self.observation_space = env.observation_space
        self.scalar = not env.action_space.shape
        self.loc = jnp.asarray(tables["loc"], dtype=float)
        self.scale = jnp.asarray(tables["scale"], dtype=float)

    def reset(self, *, key: Key[Array, ""]) -> SimPolicyState:
        return SimPolicyState(jnp.array(0, dtype=int))

    def _dist(self, observation):
        s = obs_id(observation)
        if self.scalar:
            return SquashedNormal(
                loc=self.loc[s, 0], scale=self.scale[s, 0], high=self.action_space.high, low=self.action_space.low
            )
        return SquashedMultivariateNormalDiag(
            loc=self.loc[s], scale_diag=self.scale[s], high=self.action_space.high, low=self.action_space.low
        )

    def _next(self, state):
        return None if state is None else SimPolicyState(state.k + 1)

    def __call__(self, state, observation, *, key=None, action_mask=None):
        d = self._dist(observation)
        action = d.mode() if key is None else d.sample(key)
        return self._next(state), action

    def action_distribution(self, state, observation):
        return self._next(state), self._dist(observation)

    def action_and_log_prob(self, state, observation, *, key):
        d = self._dist(observation)
        action, log_prob = d.sample_and_log_prob(key)
        return self._next(state), action, log_prob.sum().squeeze()
