"""SimMDP — a finite MDP whose tables are array fields (a new MDP never recompiles).

State ``(s, t)``: ``s`` is the table state id, ``t`` the number of transitions since
``initial`` (the environment's own episode clock).  Observations are unique per state and
carry the state id in their first component, so every observation read back later is
attributable to exactly one state.  Transitions have two branches ``succ[s, a, 0/1]``
chosen by the transition key (the oracle never predicts the branch: it reads the successor
back).  An illegal action (masked, or outside the Box bounds) leads to the absorbing,
non-terminal *poison* state with reward ``POISON_REWARD`` — it is therefore visible in the
next observation and in the reward.
"""

from __future__ import annotations

from collections import OrderedDict
from typing import Any, ClassVar

import equinox as eqx
import jax
import numpy as np
from jax import numpy as jnp
from jax import random as jr
from jaxtyping import Array, Bool, Float, Int, Key

from lerax.env import AbstractEnv, AbstractEnvState
from lerax.space import Box, Dict, Discrete, MultiBinary, MultiDiscrete, Tuple

POISON_REWARD = -64.0
OBS_BOUND = 32.0


class SimState(AbstractEnvState):
    s: Int[Array, ""]
    t: Int[Array, ""]


def comps_of(kind: str, dims: tuple[int, ...]) -> tuple[int, ...]:
    """Component sizes of the joint action index for an action-space kind."""
    if kind == "discrete":
        return (dims[0],)
    if kind == "multidiscrete":
        return tuple(dims)
    if kind == "multibinary":
        return (2,) * dims[0]
    if kind in ("box", "boxscalar"):
        return tuple(dims)
    raise ValueError(kind)


def joint_size(comps: tuple[int, ...]) -> int:
    n = 1
    for c in comps:
        n *= c
    return n


class SimMDP(AbstractEnv):
    name: ClassVar[str] = "SimMDP"

    action_space: Any
    observation_space: Any

    succ: Int[Array, "NS A 2"]
    rew: Float[Array, "NS A NS"]
    rew_w: Float[Array, " NS"]
    term: Bool[Array, " NS"]
    trunc: Bool[Array, " NS"]
    mask: Bool[Array, "NS M"] | None
    init: Int[Array, " K"]
    obs: Float[Array, "NS D"]
    p_branch: Float[Array, ""]
    box_scale: Float[Array, ""]

    kind: str = eqx.field(static=True)
    obs_kind: str = eqx.field(static=True)
    comps: tuple[int, ...] = eqx.field(static=True)
    NS: int = eqx.field(static=True)

    def __init__(self, kind, dims, obs_kind, tables, box_low=-1.0, box_high=1.0):
        self.kind = kind
        self.obs_kind = obs_kind
        self.comps = comps_of(kind, tuple(dims))
        t = tables
        self.succ = jnp.asarray(t["succ"], dtype=int)
        self.rew = jnp.asarray(t["rew"], dtype=float)
        self.rew_w = jnp.asarray(t["rew_w"], dtype=float)
        self.term = jnp.asarray(t["term"], dtype=bool)
        self.trunc = jnp.asarray(t["trunc"], dtype=bool)
        self.mask = None if t.get("mask") is None else jnp.asarray(t["mask"], dtype=bool)
        self.init = jnp.asarray(t["init"], dtype=int)
        self.obs = jnp.asarray(t["obs"], dtype=float)
        self.p_branch = jnp.asarray(t["p_branch"], dtype=float)
        self.NS = int(self.succ.shape[0])
        D = int(self.obs.shape[1])

        if kind == "discrete":
            self.action_space = Discrete(dims[0])
        elif kind == "multidiscrete":
            self.action_space = MultiDiscrete(tuple(dims))
        elif kind == "multibinary":
            self.action_space = MultiBinary(dims[0])
        elif kind == "box":
            self.action_space = Box(box_low, box_high, shape=(len(dims),))
        elif kind == "boxscalar":
            self.action_space = Box(box_low, box_high, shape=())
        else:
            raise ValueError(kind)
        # buckets per unit: comps[0] / span (both powers of two => exact in float32)
        # one-sided boxes ([low, inf) or (-inf, high]) bucket as if the box had width 2 from its finite side
        width = (box_high - box_low) if np.isfinite(box_high - box_low) else 2.0
        self.box_scale = jnp.asarray(float(self.comps[0]) / width, dtype=float)

        if obs_kind == "box":
            self.observation_space = Box(-OBS_BOUND, OBS_BOUND, shape=(D,))
        elif obs_kind == "dict":
            self.observation_space = Dict(
                OrderedDict(
                    [("id", Box(-OBS_BOUND, OBS_BOUND, shape=(1,))), ("feat", Box(-OBS_BOUND, OBS_BOUND, shape=(D - 1,)))]
                )
            )
        elif obs_kind == "dictwide":
            # one string key per component: the flattening order of the keys matters for every MLP policy
            self.observation_space = Dict(
                OrderedDict([("id", Box(-OBS_BOUND, OBS_BOUND, shape=(1,)))] + [(WIDE_KEYS[j], Box(-OBS_BOUND, OBS_BOUND, shape=(1,))) for j in range(D - 1)])
            )
        elif obs_kind == "tuple":
            self.observation_space = Tuple(
                (Box(-OBS_BOUND, OBS_BOUND, shape=(1,)), Box(-OBS_BOUND, OBS_BOUND, shape=(D - 1,)))
            )
        elif obs_kind == "discrete":
            self.observation_space = Discrete(self.NS)
        else:
            raise ValueError(obs_kind)

    # ------------------------------------------------------------------ helpers

    @property
    def poison(self) -> int:
        return self.NS - 1

    def _decode(self, action) -> tuple[Int[Array, ""], Bool[Array, ""]]:
        """Joint action index and legality w.r.t. the action space itself."""
        if self.kind == "discrete":
            a = jnp.asarray(action).astype(int)
            ok = (a >= 0) & (a < self.comps[0])
            return jnp.clip(a, 0, self.comps[0] - 1), ok
        if self.kind in ("multidiscrete", "multibinary"):
            c = jnp.asarray(action).astype(int).reshape(-1)
            n = jnp.asarray(self.comps)
            ok = jnp.all((c >= 0) & (c < n))
            c = jnp.clip(c, 0, n - 1)
            a = jnp.array(0, dtype=int)
            for j in range(len(self.comps)):
                a = a * self.comps[j] + c[j]
            return a, ok
        # box
        x = jnp.asarray(action, dtype=float).reshape(-1)
        low = jnp.asarray(self.action_space.low).reshape(-1)
        high = jnp.asarray(self.action_space.high).reshape(-1)
        ok = jnp.all((x >= low) & (x <= high)) & jnp.all(jnp.isfinite(x))
        anchor = jnp.where(jnp.isfinite(low), low, high - 2.0)
        b = jnp.floor((x - anchor) * self.box_scale).astype(int)
        n = jnp.asarray(self.comps)
        b = jnp.clip(b, 0, n - 1)
        a = jnp.array(0, dtype=int)
        for j in range(len(self.comps)):
            a = a * self.comps[j] + b[j]
        return a, ok

    def _allowed(self, s, action) -> Bool[Array, ""]:
        if self.mask is None:
            return jnp.array(True)
        m = self.mask[s]
        if self.kind == "discrete":
            a = jnp.clip(jnp.asarray(action).astype(int), 0, self.comps[0] - 1)
            return m[a]
        c = jnp.asarray(action).astype(int).reshape(-1)
        if self.kind == "multidiscrete":
            ok = jnp.array(True)
            off = 0
            for j, nj in enumerate(self.comps):
                ok = ok & m[off + jnp.clip(c[j], 0, nj - 1)]
                off += nj
            return ok
        if self.kind == "multibinary":
            return jnp.all(m | (c == 0))
        return jnp.array(True)

    # ------------------------------------------------------------------ AbstractEnv

    def initial(self, *, key: Key[Array, ""]) -> SimState:
        i = jr.randint(key, (), 0, self.init.shape[0])
        return SimState(self.init[i], jnp.array(0, dtype=int))

    def action_mask(self, state: SimState, *, key: Key[Array, ""]):
        if self.mask is None:
            return None
        return self.mask[state.s]

    def transition(self, state: SimState, action, *, key: Key[Array, ""]) -> SimState:
        a, ok = self._decode(action)
        ok = ok & self._allowed(state.s, action)
        branch = jr.bernoulli(key, self.p_branch).astype(int)
        nxt = jnp.where(ok, self.succ[state.s, a, branch], self.poison)
        return SimState(nxt, state.t + 1)

    def observation(self, state: SimState, *, key: Key[Array, ""]):
        v = self.obs[state.s]
        if self.obs_kind == "box":
            return v
        if self.obs_kind == "dict":
            return OrderedDict([("id", v[:1]), ("feat", v[1:])])
        if self.obs_kind == "dictwide":
            return OrderedDict([("id", v[:1])] + [(WIDE_KEYS[j], v[j + 1 : j + 2]) for j in range(v.shape[0] - 1)])
        if self.obs_kind == "tuple":
            return (v[:1], v[1:])
        return state.s

    def reward(self, state: SimState, action, next_state: SimState, *, key: Key[Array, ""]):
        a, ok = self._decode(action)
        ok = ok & self._allowed(state.s, action)
        r = self.rew[state.s, a, next_state.s]
        if self.kind in ("box", "boxscalar"):
            r = r + self.rew_w[state.s] * jnp.sum(jnp.asarray(action, dtype=float))
        return jnp.where(ok, r, POISON_REWARD)

    def terminal(self, state: SimState, *, key: Key[Array, ""]) -> Bool[Array, ""]:
        return self.term[state.s]

    def truncate(self, state: SimState) -> Bool[Array, ""]:
        return self.trunc[state.s]

    def state_info(self, state: SimState) -> dict:
        return {}

    def transition_info(self, state: SimState, action, next_state: SimState) -> dict:
        # echoes the action the environment RECEIVED, so that an action wrapper that forgets to map the
        # action on the info path is visible (C13: "for dynamics, reward and info alike")
        a, _ = self._decode(action)
        if self.kind in ("box", "boxscalar"):
            echo = jnp.sum(jnp.asarray(action, dtype=float))
        else:
            echo = a.astype(float)
        return {"action_echo": echo, "from": state.s, "to": next_state.s}

    def default_renderer(self):
        raise NotImplementedError

    def render(self, state, renderer):
        raise NotImplementedError


WIDE_KEYS = ["velocity", "angle", "tip", "goal", "x", "contact", "phase", "aux"]


def obs_id(obs) -> Int[Array, ""]:
    """State id carried by an observation of any SimMDP observation kind (JAX side)."""
    if isinstance(obs, dict):
        return jnp.round(obs["id"][0]).astype(int)
    if isinstance(obs, (tuple, list)):
        return jnp.round(obs[0][0]).astype(int)
    obs = jnp.asarray(obs)
    if obs.ndim == 0:
        return obs.astype(int)
    return jnp.round(obs[0]).astype(int)


def np_obs_ids(obs) -> np.ndarray:
    """State ids of a (batched) recorded observation pytree (NumPy side)."""
    if isinstance(obs, dict):
        return np.rint(np.asarray(obs["id"])[..., 0]).astype(int)
    if isinstance(obs, (tuple, list)):
        return np.rint(np.asarray(obs[0])[..., 0]).astype(int)
    obs = np.asarray(obs)
    if np.issubdtype(obs.dtype, np.integer):
        return obs.astype(int)
    return np.rint(obs[..., 0]).astype(int)


# --------------------------------------------------------------------------- generation


def _r8(rng, lo=-4.0, hi=4.0) -> float:
    """Random multiple of 1/8 in [lo, hi]."""
    return rng.randint(int(lo * 8), int(hi * 8)) / 8.0


def gen_tables(
    rng,
    *,
    S: int,
    kind: str,
    dims: tuple[int, ...],
    D: int = 3,
    masked: bool = False,
    bias: dict | None = None,
) -> dict:
    """Draw SimMDP tables.  ``S`` legal states plus one poison state (index S).

    ``bias`` steers which scheduled events are likely: keys ``p_term``, ``p_trunc``,
    ``p_stochastic``, ``single_init``, ``p_mask_single``.
    """
    bias = bias or {}
    comps = comps_of(kind, tuple(dims))
    A = joint_size(comps)
    NS = S + 1
    p_term = bias.get("p_term", rng.choice([0.0, 0.15, 0.3, 0.6]))
    p_trunc = bias.get("p_trunc", rng.choice([0.0, 0.0, 0.15, 0.4]))
    stochastic = rng.random() < bias.get("p_stochastic", 0.3)

    term = [rng.random() < p_term for _ in range(S)] + [False]
    trunc = [rng.random() < p_trunc for _ in range(S)] + [False]
    # initial states: non-terminal, non-truncating where possible
    cand = [s for s in range(S) if not term[s] and not trunc[s]]
    if not cand:
        s0 = rng.randrange(S)
        term[s0] = False
        trunc[s0] = False
        cand = [s0]
    if bias.get("single_init", rng.random() < 0.25):
        init_set = [rng.choice(cand)]
    else:
        init_set = rng.sample(cand, k=min(len(cand), rng.randint(1, 3)))
    K = 4
    init = [init_set[i % len(init_set)] for i in range(K)]
    rng.shuffle(init)

    succ = [[[0, 0] for _ in range(A)] for _ in range(NS)]
    for s in range(S):
        for a in range(A):
            s1 = rng.randrange(S)
            s2 = rng.randrange(S) if stochastic and rng.random() < 0.5 else s1
            succ[s][a] = [s1, s2]
    for a in range(A):
        succ[S][a] = [S, S]

    rew = [[[0.0] * NS for _ in range(A)] for _ in range(NS)]
    for s in range(S):
        for a in range(A):
            base = _r8(rng)
            for s2 in range(S):
                rew[s][a][s2] = base
            # distinct reward per branch so that the branch is attributable
            b0, b1 = succ[s][a]
            if b0 != b1:
                other = _r8(rng)
                while other == base:
                    other = _r8(rng)
                rew[s][a][b1] = other
    for a in range(A):
        for s2 in range(NS):
            rew[S][a][s2] = POISON_REWARD
    rew_w = [rng.choice([0.0, 0.5, 1.0, -1.0]) for _ in range(S)] + [0.0]
    if kind not in ("box", "boxscalar"):
        rew_w = [0.0] * NS

    mask = None
    if masked and kind in ("discrete", "multidiscrete", "multibinary"):
        p_single = bias.get("p_mask_single", 0.3)
        mask = []
        for s in range(NS):
            if kind == "discrete":
                n = comps[0]
                if rng.random() < p_single:
                    row = [False] * n
                    row[rng.randrange(n)] = True
                else:
                    row = [rng.random() < 0.6 for _ in range(n)]
                    if not any(row):
                        row[rng.randrange(n)] = True
                mask.append(row)
            elif kind == "multidiscrete":
                row = []
                for n in comps:
                    if rng.random() < p_single:
                        part = [False] * n
                        part[rng.randrange(n)] = True
                    else:
                        part = [rng.random() < 0.6 for _ in range(n)]
                        if not any(part):
                            part[rng.randrange(n)] = True
                    row += part
                mask.append(row)
            else:  # multibinary: masked bit must stay 0
                mask.append([rng.random() < 0.6 for _ in range(len(comps))])

    obs = []
    for s in range(NS):
        obs.append([float(s)] + [_r8(rng, -8, 8) for _ in range(D - 1)])

    return {
        "succ": succ,
        "rew": rew,
        "rew_w": rew_w,
        "term": term,
        "trunc": trunc,
        "mask": mask,
        "init": init,
        "obs": obs,
        "p_branch": rng.choice([0.5, 0.25, 0.75]) if stochastic else 0.0,
    }


def dummy_tables(S: int, kind: str, dims: tuple[int, ...], D: int = 3, masked: bool = False) -> dict:
    import random

    return gen_tables(random.Random(0), S=S, kind=kind, dims=dims, D=D, masked=masked)


def with_tables(env: SimMDP, tables: dict) -> SimMDP:
    """Swap the dynamic tables of a built SimMDP (no recompilation: same structure)."""
    fields = ["succ", "rew", "rew_w", "term", "trunc", "init", "obs", "p_branch"]
    dt = {"succ": int, "init": int, "term": bool, "trunc": bool}
    new = [jnp.asarray(tables[f], dtype=dt.get(f, float)) for f in fields]
    env = eqx.tree_at(lambda e: [getattr(e, f) for f in fields], env, new)
    if env.mask is not None:
        env = eqx.tree_at(lambda e: e.mask, env, jnp.asarray(tables["mask"], dtype=bool))
    return env
