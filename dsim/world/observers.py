"""Observers owned by the simulator: spy callback (pure JAX), recording logging back-end."""

from __future__ import annotations

from typing import Any

import equinox as eqx
from jax import numpy as jnp

from lerax.callback import (
    AbstractCallback,
    AbstractCallbackState,
    AbstractLoggingBackend,
    LoggingCallback,
)


class Recorder:
    """Mutable call log shared by back-ends of one run (identity-hashed)."""

    def __init__(self) -> None:
        self.calls: list[dict] = []
        self.seq = 0
        self.fault = None  # callable(kind, n) -> None or raises

    def add(self, **kw: Any) -> None:
        kw["n"] = self.seq
        self.seq += 1
        self.calls.append(kw)

    def clear(self) -> None:
        self.calls.clear()
        self.seq = 0


class RecordingBackend(AbstractLoggingBackend):
    _rec: Any = eqx.field(static=True)
    _tag: str = eqx.field(static=True)

    def __init__(self, rec: Recorder | None = None, tag: str = "rec") -> None:
        self._rec = rec if rec is not None else Recorder()
        self._tag = tag

    @property
    def rec(self) -> Recorder:
        return self._rec

    def _fault(self, kind: str) -> None:
        if self._rec.fault is not None:
            self._rec.fault(self._tag, kind)

    def open(self, name: str) -> None:
        self._rec.add(backend=self._tag, call="open", name=name)

    def log_hparams(self, hparams) -> None:
        self._fault("log_hparams")
        self._rec.add(backend=self._tag, call="log_hparams", keys=sorted(hparams))

    def log_scalars(self, scalars, step) -> None:
        self._fault("log_scalars")
        import numpy as np

        self._rec.add(
            backend=self._tag,
            call="log_scalars",
            step=int(np.asarray(step)),
            scalars={k: float(np.asarray(v)) for k, v in scalars.items()},
        )

    def log_video(self, tag, frames, step, fps) -> None:
        self._fault("log_video")
        import numpy as np

        self._rec.add(
            backend=self._tag, call="log_video", step=int(step), shape=list(np.asarray(frames).shape), fps=float(fps)
        )

    def close(self) -> None:
        self._rec.add(backend=self._tag, call="close")


class SpyState(AbstractCallbackState):
    log: Any


class SpyCallback(AbstractCallback):
    """Pure-JAX observer.  Step-level calls are delegated to a *real* LoggingCallback
    (so ``LoggingCallbackStepState.next`` and its wiring run), the iteration-level call
    returns the algorithm's training log (used to read the collected buffer / losses
    without any host callback)."""

    inner: LoggingCallback
    log_iter: bool = eqx.field(static=True)

    def __init__(self, alpha=0.9, log_iter: bool = False):
        self.inner = LoggingCallback(RecordingBackend(), name="spy", alpha=alpha)
        self.log_iter = log_iter

    @property
    def recorder(self) -> Recorder:
        return self.inner._backends[0].rec

    def reset(self, ctx, *, key):
        return SpyState(None)

    def step_reset(self, ctx, *, key):
        return self.inner.step_reset(ctx, key=key)

    def on_step(self, ctx, *, key):
        return self.inner.on_step(ctx, key=key)

    def on_iteration(self, ctx, *, key):
        if self.log_iter:
            # the real LoggingCallback.on_iteration (means over nodes, step sum, ordered host callbacks)
            self.inner.on_iteration(eqx.tree_at(lambda c: (c.training_log, c.state), ctx, ({}, None), is_leaf=lambda x: x is None), key=key)
        return SpyState(ctx.training_log)

    def on_training_start(self, ctx, *, key):
        return ctx.state

    def on_training_end(self, ctx, *, key):
        return ctx.state

    def continue_training(self, ctx, *, key):
        return jnp.array(True)


class TargetSpy(SpyCallback):
    """Spy that reports, from INSIDE `learn()`, the state every iteration starts from (and the final one): iteration
    count, online networks and target networks — found in the context's `locals` by their field names."""

    sink: Any = eqx.field(static=True)

    def __init__(self, sink: list):
        super().__init__()
        self.sink = sink

    @staticmethod
    def _find_state(ctx):
        loc = getattr(ctx, "locals", None) or {}
        cands = [v for k, v in sorted(loc.items(), key=lambda kv: (kv[0] != "state", kv[0]))
                 if hasattr(v, "iteration_count") and (hasattr(v, "qf1_target") or hasattr(v, "target_policy"))]
        return cands[0] if cands else None

    def _emit(self, where: str, ctx):
        import jax
        from jax.experimental import io_callback

        st = self._find_state(ctx)
        if st is None:
            io_callback(lambda: self.sink.append({"where": where, "missing": True}), None, ordered=True)
            return
        if hasattr(st, "qf1_target"):
            online, target = (st.qf1, st.qf2), (st.qf1_target, st.qf2_target)
        else:
            online, target = st.policy, st.target_policy
        flat = lambda t: jnp.concatenate([jnp.ravel(x).astype(float) for x in jax.tree.leaves(eqx.filter(t, eqx.is_inexact_array))])  # noqa: E731

        def host(count, on, tg):
            import numpy as np

            self.sink.append({"where": where, "count": int(np.asarray(count)), "online": np.asarray(on).copy(), "target": np.asarray(tg).copy()})

        io_callback(host, None, st.iteration_count, flat(online), flat(target), ordered=True)

    def on_iteration(self, ctx, *, key):
        self._emit("iteration", ctx)
        return SpyState(None)

    def on_training_end(self, ctx, *, key):
        self._emit("end", ctx)
        return ctx.state
