"""Parallel seeded search: JAX-free parent, spawned workers, evidence, replay files.

Exit codes of a check: 0 = property held on everything explored (known findings are
printed as KNOWN-FINDING lines); 1 = violation not listed in known_findings.json
(`VIOLATION property=<id> replay=<path>`); 2 = harness failure (never reported as 0 or as
a violation).
"""

from __future__ import annotations

import faulthandler
import importlib
import json
import os
import random
import sys
import time
import traceback
from collections import Counter

from . import kernel as K

_RUNNERS: dict = {}


# --------------------------------------------------------------------------- worker side


def _worker_init(silence_stdout: bool = False):
    os.environ.setdefault("JAX_PLATFORMS", "cpu")
    os.environ.setdefault("SDL_AUDIODRIVER", "dummy")
    os.environ.setdefault("SDL_VIDEODRIVER", "dummy")
    if silence_stdout:
        # workers report through return values only; observers under test (rich progress bars,
        # console back-ends) write to fd 1 from their own threads
        devnull = os.open(os.devnull, os.O_WRONLY)
        os.dup2(devnull, 1)
    faulthandler.enable()
    sys.setrecursionlimit(10000)
    import warnings

    warnings.filterwarnings("ignore")
    import logging

    logging.getLogger("jax._src.callback").setLevel(logging.CRITICAL)
    logging.getLogger("jax._src.debugging").setLevel(logging.CRITICAL)
    import jax

    cache = os.path.join(K.VERIF_ROOT, ".cache", "xla")
    try:
        os.makedirs(cache, exist_ok=True)
        jax.config.update("jax_compilation_cache_dir", cache)
        jax.config.update("jax_persistent_cache_min_compile_time_secs", 0.5)
        jax.config.update("jax_persistent_cache_min_entry_size_bytes", -1)
    except Exception:
        pass


def scenario_module(name: str):
    return importlib.import_module(f"dsim.scenarios.{name}")


def get_runner(scenario: str, cls: dict):
    key = (scenario, K.canon(cls))
    r = _RUNNERS.get(key)
    if r is None:
        r = scenario_module(scenario).Runner(cls)
        _RUNNERS[key] = r
    return r


def execute_guarded(runner, plan: dict, prop: str):
    """Execute a plan; an exception with a lerax frame in its traceback is a `crash`
    verdict of the property being exercised, anything else is a harness error."""
    try:
        return runner.execute(plan, {prop}), None
    except Exception as exc:  # noqa: BLE001
        frame = K.lerax_frame(exc)
        if frame is None:
            return None, "".join(traceback.format_exception(exc))[-4000:]
        res = K.RunResult(K.Trace())
        res.trace.ev("crash", where=frame, exc=K.exc_summary(exc))
        res.fail(prop, "crash", f"{type(exc).__name__}@{frame}", message=K.exc_summary(exc))
        return res, None


def signatures(res: K.RunResult, prop: str) -> list[tuple]:
    seen = []
    for v in res.verdicts:
        if v.prop == prop and v.signature not in seen:
            seen.append(v.signature)
    return seen


def shrink(runner, plan: dict, sig: tuple, prop: str, max_exec: int = 120, max_s: float = 45.0):
    """Greedy delta debugging on the plan while the same signature persists."""
    cand_fn = getattr(runner, "shrink_candidates", None)
    if cand_fn is None:
        return plan, 0
    t0 = time.time()
    n_exec = 0
    improved = True
    while improved and n_exec < max_exec and time.time() - t0 < max_s:
        improved = False
        for cand in cand_fn(plan):
            if n_exec >= max_exec or time.time() - t0 > max_s:
                break
            n_exec += 1
            res, err = execute_guarded(runner, cand, prop)
            if err is None and sig in signatures(res, prop):
                plan = cand
                improved = True
                break
    return plan, n_exec


def make_replay(runner, scenario: str, cls: dict, plan: dict, prop: str, sig: tuple, tier: str, seed: int, minimised_from: dict | None):
    res, err = execute_guarded(runner, plan, prop)
    verdict = None
    if res is not None:
        for v in res.verdicts:
            if v.signature == sig:
                verdict = v.to_json()
                break
    return {
        "format": K.FORMAT,
        "property": prop,
        "signature": list(sig),
        "seed": seed,
        "tier": tier,
        "scenario": scenario,
        "cls": cls,
        "plan": plan,
        "minimised_from": minimised_from,
        "trace_digest": res.trace.digest() if res is not None else None,
        "trace": res.trace.events if res is not None else None,
        "verdict": verdict,
    }


def plan_size(plan: dict) -> dict:
    return {"ops": len(plan.get("ops", [])), "faults": len(plan.get("faults", []))}


def run_job(job: dict) -> dict:
    """One (scenario, shape class, seed range) chunk.  Runs in a worker process."""
    t_start = time.time()
    faulthandler.dump_traceback_later(job.get("hang_s", 900), exit=True)
    scenario, cls, prop, tier = job["scenario"], job["cls"], job["prop"], job["tier"]
    out = {
        "job": {k: job[k] for k in ("scenario", "cls_index", "start", "count")},
        "runs": 0,
        "events": Counter(),
        "faults": Counter(),
        "probes": Counter(),
        "checks": Counter(),
        "sigs": set(),
        "nontrivial": 0,
        "steps": 0,
        "sim_seconds": 0.0,
        "samples": [],
        "violations": [],
        "known_counts": Counter(),
        "harness_errors": [],
        "rechecks": 0,
        "build_s": 0.0,
        "fault_free_runs": 0,
    }
    try:
        t0 = time.time()
        runner = get_runner(scenario, cls)
        out["build_s"] = time.time() - t0
    except Exception as exc:  # noqa: BLE001
        frame = K.lerax_frame(exc)
        if frame is not None:
            sig = (prop, "crash", f"build:{type(exc).__name__}@{frame}")
            out["violations"].append(
                {"format": K.FORMAT, "property": prop, "signature": list(sig), "seed": job["base"], "tier": tier, "scenario": scenario,
                 "cls": cls, "plan": None, "trace": None, "trace_digest": None, "verdict": {"message": K.exc_summary(exc)}}
            )
        else:
            out["harness_errors"].append("build: " + "".join(traceback.format_exception(exc))[-3000:])
        out["wall_s"] = time.time() - t_start
        return _jsonable(out)
    known = K.load_known_findings()
    seen_sigs: set = set()
    deadline = job.get("deadline")
    if job.get("slice_s") is not None:
        deadline = min(deadline or 1e18, time.time() + job["slice_s"])
    i = job["start"]
    end = job["start"] + job["count"]
    while i < end:
        if deadline is not None and time.time() > deadline:
            break
        seed_i = K.derive(job["base"], scenario, job["cls_index"], i)
        rng = random.Random(seed_i)
        try:
            plan = runner.gen(rng, prop)
        except Exception as exc:  # noqa: BLE001
            out["harness_errors"].append(f"gen seed={seed_i}: " + "".join(traceback.format_exception(exc))[-3000:])
            break
        plan["seed"] = seed_i
        res, err = execute_guarded(runner, plan, prop)
        if err is not None:
            out["harness_errors"].append(f"execute seed={seed_i}: {err}")
            if len(out["harness_errors"]) > 3:
                break
            i += 1
            continue
        out["runs"] += 1
        out["events"].update(res.events)
        out["faults"].update(res.faults)
        out["probes"].update(res.probes)
        out["checks"].update({k: v for k, v in res.checks.items() if k.startswith(prop + ".")})
        out["steps"] += res.steps
        out["sim_seconds"] += res.sim_seconds
        if not res.faults:
            out["fault_free_runs"] += 1
        if res.events or res.faults:
            out["nontrivial"] += 1
            out["sigs"].add(f"{scenario}/{job['cls_index']}/{res.event_signature()}")
        if len(out["samples"]) < 1 and (res.events or res.faults or i == end - 1):
            out["samples"].append({"scenario": scenario, "cls": cls, "seed": seed_i, "plan": _small_plan(plan), "trace": res.trace.truncated(24),
                                   "events": dict(res.events), "faults": dict(res.faults)})
        # determinism re-check (harness obligation, never a violation)
        if (i - job["start"]) % 50 == 0:
            res2, err2 = execute_guarded(runner, plan, prop)
            out["rechecks"] += 1
            if err2 is not None or res2.trace.digest() != res.trace.digest():
                out["harness_errors"].append(f"nondeterministic re-execution seed={seed_i}")
        for sig in signatures(res, prop):
            entry = K.known_match(sig, known)
            if entry is not None:
                out["known_counts"][K.canon(list(sig))] += 1
                continue
            if sig in seen_sigs:
                continue
            seen_sigs.add(sig)
            small, n_exec = shrink(runner, plan, sig, prop)
            doc = make_replay(runner, scenario, cls, small, prop, sig, tier, seed_i, {**plan_size(plan), "shrink_executions": n_exec})
            out["violations"].append(doc)
        i += 1
    out["wall_s"] = time.time() - t_start
    faulthandler.cancel_dump_traceback_later()
    return _jsonable(out)


def _small_plan(plan: dict) -> dict:
    """Plan with big tables elided (for evidence samples)."""
    p = {}
    for k, v in plan.items():
        if k in ("world", "policy", "tables") and isinstance(v, dict):
            p[k] = {kk: ("<table>" if isinstance(vv, list) and len(K.canon(vv)) > 200 else vv) for kk, vv in v.items()}
        else:
            p[k] = v
    return p


def _jsonable(out: dict) -> dict:
    out = dict(out)
    for k in ("events", "faults", "probes", "checks", "known_counts"):
        out[k] = dict(out[k])
    out["sigs"] = sorted(out["sigs"])
    return K._plain(out)


# --------------------------------------------------------------------------- parent side


def run_check(prop: str, tier: str, spec: dict) -> int:
    """Run all jobs of a property check, aggregate, write evidence, report.

    ``spec``: {"scenarios": [{"name", "runs_quick", "runs_thorough"|None, "chunks"}...],
               "level", "rule", "assumptions", "real", "stub"}
    """
    import concurrent.futures as cf
    import multiprocessing as mp

    t0 = time.time()
    seed = K.env_seed()
    base = K.derive(seed, prop, tier)
    budget = float(os.environ.get("VERIF_BUDGET_S", spec.get("budget_s", {}).get(tier, 600 if tier == "quick" else 1200)))
    workers = int(os.environ.get("VERIF_WORKERS", "16"))
    if "VERIF_WORKERS" not in os.environ:
        # a worker holding a compiled MuJoCo / G1 class needs up to ~4 GB: do not start more workers than the memory that is
        # available right now can hold (a worker killed by the OOM killer is a harness error, never a verdict, but it wastes the run)
        try:
            with open("/proc/meminfo") as f:
                avail_kb = next(int(line.split()[1]) for line in f if line.startswith("MemAvailable:"))
            workers = max(2, min(workers, os.cpu_count() or workers, int(avail_kb / 1024 / 1024 / 3.5)))
        except Exception:  # noqa: BLE001
            pass
    os.environ["PYTHONHASHSEED"] = os.environ.get("VERIF_HASHSEED", "0")
    os.environ.setdefault("JAX_PLATFORMS", "cpu")
    os.environ.setdefault("XLA_FLAGS", "--xla_cpu_multi_thread_eigen=false intra_op_parallelism_threads=1")
    os.environ.setdefault("TF_CPP_MIN_LOG_LEVEL", "3")
    deadline = t0 + budget

    jobs = []
    for sc in spec["scenarios"]:
        mod_classes = _classes_in_subprocess(sc["name"], tier, prop)
        runs = sc["runs"][tier]
        chunks = sc.get("chunks", {}).get(tier, 2)
        for ci, cls in enumerate(mod_classes):
            per = max(1, runs // chunks)
            for c in range(chunks):
                jobs.append(
                    {"scenario": sc["name"], "cls": cls, "cls_index": ci, "prop": prop, "tier": tier, "base": base,
                     "start": c * per, "count": per, "deadline": deadline - 20 if tier == "thorough" else deadline - 5,
                     "hang_s": int(budget) + 120}
                )
    # interleave so that different classes start first
    jobs.sort(key=lambda j: (j["start"], j["scenario"], j["cls_index"]))
    if tier == "thorough":
        # time-boxed tier: every job gets an equal slice of the budget so that no shape class starves
        waves = -(-len(jobs) // max(1, min(workers, len(jobs))))
        for j in jobs:
            j["slice_s"] = max(10.0, (budget - 30.0) / waves)

    agg = {
        "runs": 0, "events": Counter(), "faults": Counter(), "probes": Counter(), "checks": Counter(), "sigs": set(),
        "nontrivial": 0, "steps": 0, "sim_seconds": 0.0, "samples": [], "violations": [], "known_counts": Counter(),
        "harness_errors": [], "rechecks": 0, "fault_free_runs": 0, "classes": set(), "build_s": 0.0, "busy_s": 0.0,
    }
    ctx = mp.get_context("spawn")
    harness_fail = False
    with cf.ProcessPoolExecutor(max_workers=min(workers, max(1, len(jobs))), mp_context=ctx, initializer=_worker_init, initargs=(True,)) as pool:
        futs = {pool.submit(run_job, j): j for j in jobs}
        try:
            for fut in cf.as_completed(futs, timeout=2 * budget + 600):   # generous: a loaded machine stretches compiles, and a timeout is a broken run
                j = futs[fut]
                try:
                    out = fut.result()
                except Exception as exc:  # noqa: BLE001
                    agg["harness_errors"].append(f"worker failed on {j['scenario']}/{j['cls_index']}: {exc!r}")
                    harness_fail = True
                    continue
                agg["runs"] += out["runs"]
                for k in ("events", "faults", "probes", "checks", "known_counts"):
                    agg[k].update(out[k])
                agg["sigs"].update(out["sigs"])
                for k in ("nontrivial", "steps", "rechecks", "fault_free_runs"):
                    agg[k] += out[k]
                agg["sim_seconds"] += out["sim_seconds"]
                agg["build_s"] += out["build_s"]
                agg["busy_s"] += out["wall_s"]
                if len(agg["samples"]) < 3:
                    agg["samples"].extend(out["samples"][: 3 - len(agg["samples"])])
                agg["violations"].extend(out["violations"])
                agg["harness_errors"].extend(out["harness_errors"])
                agg["classes"].add(f"{j['scenario']}/{j['cls_index']}")
        except cf.TimeoutError:
            agg["harness_errors"].append("check timed out waiting for workers")
            harness_fail = True
            for f in futs:
                f.cancel()

    wall = time.time() - t0
    # ---- report
    known = K.load_known_findings()
    for sig_json, cnt in sorted(agg["known_counts"].items()):
        sig = json.loads(sig_json)
        e = K.known_match(sig, known)
        print(f"KNOWN-FINDING: property={prop} {e.get('what_fails', '/'.join(sig))} (seen in {cnt} runs; signature {'/'.join(sig)})")
    reported = set()
    n_viol = 0
    for doc in agg["violations"]:
        sig = tuple(doc["signature"])
        if sig in reported:
            continue
        reported.add(sig)
        n_viol += 1
        path = K.replay_path(prop, sig, doc["seed"])
        K.write_replay(path, doc)
        msg = (doc.get("verdict") or {}).get("cause", "") or "/".join(sig)
        print(f"VIOLATION property={prop} replay={path} check={sig[1]} cause={sig[2]} seed={doc['seed']} scenario={doc['scenario']}")
    for e in agg["harness_errors"][:5]:
        print("HARNESS-ERROR:", e.strip().splitlines()[-1] if e.strip() else e, file=sys.stderr)
        if os.environ.get("VERIF_DEBUG"):
            print(e, file=sys.stderr)
    if agg["harness_errors"]:
        harness_fail = True

    evidence = {
        "property_id": prop,
        "tier": tier,
        "seed": seed,
        "level": spec.get("level", "exploration"),
        "coverage": {
            "evaluations": agg["runs"],
            "distinct_nontrivial": len(agg["sigs"]),
            "rule": spec["rule"],
            "samples": agg["samples"] or [{"note": "no run completed"}],
            "runs_per_hour": round(agg["runs"] / max(wall, 1e-6) * 3600),
            "seeds": {"VERIF_SEED": seed, "base": base, "derivation": "sha256(VERIF_SEED/property/tier) then /scenario/class/index"},
            "simulated_steps": agg["steps"],
            "simulated_seconds": round(agg["sim_seconds"], 3),
            "events_fired": dict(sorted(agg["events"].items())),
            "faults_fired": dict(sorted(agg["faults"].items())),
            "fault_free_runs": agg["fault_free_runs"],
            "probes": dict(sorted(agg["probes"].items())),
            "oracle_evaluations": dict(sorted(agg["checks"].items())),
            "runs_with_event_or_fault": agg["nontrivial"],
            "shape_classes": sorted(agg["classes"]),
            "determinism_rechecks": agg["rechecks"],
            "compile_seconds_total": round(agg["build_s"], 1),
            "worker_busy_seconds": round(agg["busy_s"], 1),
            "real_components": spec.get("real", []),
            "stub_components": spec.get("stub", []),
            "known_findings_seen": {k: v for k, v in agg["known_counts"].items()},
            "harness_errors": len(agg["harness_errors"]),
        },
        "assumptions": spec.get("assumptions", []),
        "wall_s": round(wall, 2),
        "violations": n_viol,
    }
    # VERIF_EVIDENCE_DIR is set by checks/try_patch.sh so that runs against a seeded change never overwrite the evidence of the unchanged tree
    ev_dir = os.environ.get("VERIF_EVIDENCE_DIR") or os.path.join(K.VERIF_ROOT, "evidence")
    os.makedirs(ev_dir, exist_ok=True)
    with open(os.path.join(ev_dir, f"{prop}.json"), "w") as f:
        json.dump(K._plain(evidence), f, indent=1, sort_keys=True)
    print(
        f"[{prop} {tier}] runs={agg['runs']} distinct={len(agg['sigs'])} steps={agg['steps']} violations={n_viol} "
        f"known={sum(agg['known_counts'].values())} harness_errors={len(agg['harness_errors'])} wall={wall:.1f}s"
    )
    if n_viol:
        return 1
    if harness_fail or agg["runs"] == 0:
        return 2
    return 0


def _classes_in_subprocess(name: str, tier: str, prop: str) -> list[dict]:
    """Shape classes are plain data; scenario modules keep `classes` importable without
    touching JAX state in the parent (the module import itself may import jax lazily)."""
    mod = importlib.import_module("dsim.classes")
    return mod.classes(name, tier, prop)
