"""S8 `storage` — save/load operation sequences over a simulated disk with crash points.

The "disk" is a per-run directory driven only by the plan.  Operations: save a policy under
a path spelling, load it back with the same / other constructor arguments, and file-system
faults between and inside operations: torn write (truncate at byte k = crash during save),
ENOSPC after k bytes (patched `open` for the duration of the save), pre-existing older file,
missing directories, changed working directory.

Serves C18: round trip restores bit-identical parameters and behaviour; a shape mismatch
raises; a torn / short file never yields a partially loaded policy.
"""

from __future__ import annotations

import builtins
import copy
import errno
import os
import shutil
import tempfile
from pathlib import Path

import equinox as eqx
import jax
import numpy as np
from jax import numpy as jnp
from jax import random as jr

from lerax.policy import MLPActorCriticPolicy, MLPQPolicy, MLPSACPolicy

from ..classes import storage as classes  # noqa: F401
from ..kernel import RunResult, Trace
from ..world.mdp import SimMDP, dummy_tables

NAME = "storage"
PROPS = {"C18"}

POLICIES = {"ac": MLPActorCriticPolicy, "q": MLPQPolicy, "sac": MLPSACPolicy}


def make_env(kind, dims, obs_kind, D=3):
    return SimMDP(kind, tuple(dims), obs_kind, dummy_tables(3, kind, tuple(dims), D=D), box_low=-1.0, box_high=1.0)


def ctor_kwargs(ptype: str, arch: dict) -> dict:
    if ptype == "ac":
        return dict(feature_size=arch["f"], feature_width=arch["w"], feature_depth=arch["d"], value_width=arch["w"], value_depth=1,
                    action_width=arch["w"], action_depth=arch["d"])
    if ptype == "q":
        return dict(width_size=arch["w"], depth=arch["d"])
    return dict(feature_size=arch["f"], width_size=arch["w"], depth=arch["d"])


class FaultyOpen:
    """`open` replacement: files opened for writing accept `budget` bytes, then ENOSPC."""

    def __init__(self, budget: int, counter: dict):
        self.budget = budget
        self.real = builtins.open
        self.counter = counter

    def __call__(self, file, mode="r", *a, **kw):
        if self.budget < 0 and "w" in mode and "b" in mode:
            # the open itself fails (EMFILE / EACCES ...): nothing is truncated, an older file stays intact
            self.counter["fired"] = True
            raise OSError(errno.EMFILE, "Too many open files (injected)")
        f = self.real(file, mode, *a, **kw)
        if "w" not in mode or "b" not in mode:
            return f
        outer = self

        class W:
            def write(self_, data):
                n = len(data)
                if n > outer.budget:
                    if outer.budget > 0:
                        f.write(bytes(data[: outer.budget]))
                    outer.budget = 0
                    outer.counter["fired"] = True
                    f.flush()
                    raise OSError(errno.ENOSPC, "No space left on device (injected)")
                outer.budget -= n
                return f.write(data)

            def __getattr__(self_, name):
                return getattr(f, name)

            def __enter__(self_):
                return self_

            def __exit__(self_, *exc):
                f.close()
                return False

        return W()


class Runner:
    def __init__(self, cls: dict):
        self.cls = cls
        self.ptype = cls["policy"]
        self.env = make_env(cls["kind"], cls["dims"], cls["obs_kind"], cls.get("D", 3))
        self.alt_env = make_env(cls["alt_kind"], cls["alt_dims"], cls["alt_obs_kind"], cls.get("alt_D", 3))
        self.P = POLICIES[self.ptype]
        self._behave = eqx.filter_jit(self._behaviour)

    # behaviour of a policy on a batch of observations (actions key-less and keyed, values, log-probs)
    def _behaviour(self, policy, obs_batch, key):
        def one(o):
            out = {}
            _, out["keyless"] = policy(None, o)
            _, out["keyed"] = policy(None, o, key=key)
            if self.ptype == "ac":
                _, a, v, lp = policy.action_and_value(None, o, key=key)
                out["a"], out["v"], out["lp"] = a, v, lp
                _, v2, lp2, ent = policy.evaluate_action(None, o, a)
                out["v2"], out["lp2"] = v2, lp2
            elif self.ptype == "q":
                _, out["q"] = policy.q_values(None, o)
            else:
                _, a, lp = policy.action_and_log_prob(None, o, key=key)
                out["a"], out["lp"] = a, lp
            return out

        return jax.vmap(one)(obs_batch)

    def _obs_batch(self, env, key):
        keys = jr.split(key, 6)
        return jax.vmap(lambda k: env.observation_space.sample(key=k))(keys) if env.obs_kind == "box" else jax.vmap(lambda k: env.observation(env.initial(key=k), key=k))(keys)

    def gen(self, rng, prop: str) -> dict:
        # size-1 dimensions included: a lenient loader could broadcast them onto a larger architecture
        arch = {"f": rng.choice([1, 4, 6]), "w": rng.choice([1, 4, 8]), "d": rng.choice([1, 2])}
        spellings = ["m", "m.eqx", "sub/m", "a/b/c/m.eqx", "pathobj:m", "pathobj:x/y/m", "cwd:m", "nosuffix:m", "nosuffix:m.ckpt", "nosuffix:z/m.bin"]
        n_ops = rng.randint(2, 7)
        ops = []
        for _ in range(n_ops):
            u = rng.random()
            sp = rng.choice(spellings)
            if u < 0.35:
                ops.append({"op": "save", "pol": rng.randrange(3), "path": sp})
            elif u < 0.6:
                ops.append({"op": "load", "path": sp, "ctor": "same"})
            elif u < 0.72:
                ops.append({"op": "load", "path": sp, "ctor": rng.choice(["wider", "deeper", "other_env", "bigger_feature"])})
            elif u < 0.84:
                ops.append({"op": "tear", "path": sp, "frac": rng.random()})
            elif u < 0.90:
                ops.append({"op": "save_enospc", "pol": rng.randrange(3), "path": sp, "frac": rng.random()})
            elif u < 0.94:
                ops.append({"op": "save_eopen", "pol": rng.randrange(3), "path": sp})
            else:
                ops.append({"op": "preexist", "path": sp, "what": rng.choice(["garbage", "other_arch", "empty"])})
        # make sure something is saved early so that loads have a target
        ops.insert(0, {"op": "save", "pol": 0, "path": rng.choice(spellings)})
        ops.append({"op": "load", "path": ops[0]["path"], "ctor": "same"})
        if rng.random() < 0.3:
            ops.append({"op": "tilde_roundtrip", "pol": rng.randrange(3), "path": "m"})
        return {
            "scenario": NAME, "cls": self.cls, "arch": arch, "ops": ops, "faults": [],
            "pols": [{"key": rng.getrandbits(31), "perturb": rng.choice(["none", "scale", "special"])} for _ in range(3)],
            "obs_key": rng.getrandbits(31),
        }

    def shrink_candidates(self, plan: dict):
        ops = plan["ops"]
        for i in range(len(ops)):
            if len(ops) > 1:
                p = copy.deepcopy(plan)
                p["ops"].pop(i)
                yield p
        for i, pol in enumerate(plan["pols"]):
            if pol["perturb"] != "none":
                p = copy.deepcopy(plan)
                p["pols"][i]["perturb"] = "none"
                yield p

    # ------------------------------------------------------------------ helpers

    def _make(self, env, arch, key_int, perturb="none"):
        pol = self.P(env, **ctor_kwargs(self.ptype, arch), key=jr.key(key_int))
        if perturb == "none":
            return pol
        leaves, treedef = jax.tree.flatten(pol)
        out = []
        rs = np.random.RandomState(key_int % (2**31))
        for x in leaves:
            if eqx.is_inexact_array(x):
                a = np.array(x)
                if perturb == "scale":
                    a = a * 3.0 + 0.5
                else:
                    flat = a.reshape(-1)
                    if flat.size:
                        flat[0] = -0.0
                    if flat.size > 1:
                        flat[1] = 1e-42  # denormal in float32
                    if flat.size > 2:
                        flat[2] = rs.choice([np.float32(3.4e38), np.float32(-3.4e38)])
                    a = flat.reshape(a.shape)
                out.append(jnp.asarray(a, dtype=x.dtype))
            else:
                out.append(x)
        return jax.tree.unflatten(treedef, out)

    def _resolve(self, root: str, spelling: str):
        """(argument passed to serialize/deserialize, no_suffix flag, cwd to use, file on disk)."""
        no_suffix = False
        cwd = None
        as_path = False
        sp = spelling
        if sp.startswith("pathobj:"):
            as_path, sp = True, sp[len("pathobj:"):]
        if sp.startswith("nosuffix:"):
            no_suffix, sp = True, sp[len("nosuffix:"):]
        if sp.startswith("cwd:"):
            sp = sp[len("cwd:"):]
            cwd = root
            arg = sp
            full = os.path.join(root, sp)
        else:
            arg = os.path.join(root, sp)
            full = arg
        disk = full if Path(full).suffix != "" else full + ".eqx"
        return (Path(arg) if as_path else arg), no_suffix, cwd, disk

    @staticmethod
    def _leaves_equal(a, b) -> bool:
        la, lb = jax.tree.leaves(a), jax.tree.leaves(b)
        if jax.tree.structure(a) != jax.tree.structure(b) or len(la) != len(lb):
            return False
        for x, y in zip(la, lb):
            if eqx.is_array(x) or isinstance(x, np.ndarray):
                x, y = np.asarray(x), np.asarray(y)
                if x.shape != y.shape or x.dtype != y.dtype or x.tobytes() != y.tobytes():
                    return False
            elif isinstance(x, float) and isinstance(y, float):
                # Python-float hyper-parameters (e.g. epsilon) are stored by equinox as float32 scalars:
                # equal after float32 rounding is all that behaviour under default (x32) JAX can see
                if np.float32(x) != np.float32(y):
                    return False
            elif x != y:
                return False
        return True

    # ------------------------------------------------------------------ execution

    def execute(self, plan: dict, props: set | None = None) -> RunResult:
        res = RunResult(Trace())
        tr = res.trace
        F = res.faults
        arch = plan["arch"]
        root = tempfile.mkdtemp(prefix="dsim-disk-")
        old_cwd = os.getcwd()
        pols = [self._make(self.env, arch, p["key"], p["perturb"]) for p in plan["pols"]]
        # what a COMPLETE save put at each disk location: index of the policy, or None (torn / garbage / unknown)
        content: dict[str, object] = {}
        obs = self._obs_batch(self.env, jr.key(plan["obs_key"]))
        try:
            for oi, op in enumerate(plan["ops"]):
                arg, no_suffix, cwd, disk = self._resolve(root, op["path"])
                kind = op["op"]
                if cwd:
                    os.chdir(cwd)
                try:
                    if kind == "save":
                        existed = os.path.exists(disk)
                        if existed:
                            F["F.fs_preexisting"] += 1
                        if not os.path.isdir(os.path.dirname(disk)):
                            F["F.fs_missing_dir"] += 1
                        try:
                            pols[op["pol"]].serialize(arg, no_suffix=no_suffix) if no_suffix else pols[op["pol"]].serialize(arg)
                        except Exception as exc:  # noqa: BLE001
                            res.fail("C18", "crash", f"save_raised:{type(exc).__name__}", path=op["path"], message=str(exc)[:200])
                            tr.ev("save", path=op["path"], ok=False)
                            continue
                        tr.ev("save", path=op["path"], pol=op["pol"], disk=os.path.relpath(disk, root), size=os.path.getsize(disk) if os.path.exists(disk) else -1)
                        if not os.path.exists(disk):
                            res.fail("C18", "path_spelling", "file_not_where_load_looks", path=op["path"], listing=sorted(os.listdir(os.path.dirname(disk)) if os.path.isdir(os.path.dirname(disk)) else []))
                            continue
                        res.ok("C18", "mkdir_parents")
                        content[disk] = op["pol"]
                    elif kind in ("save_enospc", "save_eopen"):
                        full_size = self._size_of(pols[op["pol"]], root)
                        budget = int(op["frac"] * full_size) if kind == "save_enospc" else -1
                        os.makedirs(os.path.dirname(disk), exist_ok=True) if kind == "save_eopen" else None
                        counter = {"fired": False}
                        real_open = builtins.open
                        builtins.open = FaultyOpen(budget, counter)
                        raised = False
                        try:
                            pols[op["pol"]].serialize(arg, no_suffix=no_suffix) if no_suffix else pols[op["pol"]].serialize(arg)
                        except Exception:  # noqa: BLE001
                            raised = True
                        finally:
                            builtins.open = real_open
                        if counter["fired"]:
                            F["F.fs_enospc" if kind == "save_enospc" else "F.fs_open_error"] += 1
                            if raised:
                                if kind == "save_enospc":
                                    content[disk] = None  # short file: only "raises" is acceptable on load
                                # save_eopen: the save failed loudly before touching the file; what was there stays
                                res.ok("C18", "failed_save_is_loud")
                            else:
                                # the write failed underneath and serialize() still returned normally: the caller believes the
                                # policy is saved, so loading the path must restore exactly that policy
                                res.probes["faulted_save_did_not_raise"] += 1
                                content[disk] = op["pol"]
                                tr.ev(kind, path=op["path"], budget=budget, fired=True, raised=False)
                                self._do_load(res, tr, {"op": "load", "path": op["path"], "ctor": "same"}, arg, disk, content, pols, arch, obs, plan)
                                continue
                        else:
                            content[disk] = op["pol"]
                        tr.ev(kind, path=op["path"], budget=budget, fired=counter["fired"], raised=raised)
                    elif kind == "tear":
                        if os.path.exists(disk) and os.path.getsize(disk) > 0:
                            size = os.path.getsize(disk)
                            k = min(size - 1, int(op["frac"] * size))
                            with open(disk, "r+b") as f:
                                f.truncate(k)
                            F["F.fs_torn"] += 1
                            content[disk] = None
                            tr.ev("tear", path=op["path"], at=k, of=size)
                    elif kind == "preexist":
                        os.makedirs(os.path.dirname(disk), exist_ok=True)
                        if op["what"] == "garbage":
                            with open(disk, "wb") as f:
                                f.write(b"\x93NUMPY garbage" * 3)
                            content[disk] = None
                        elif op["what"] == "empty":
                            open(disk, "wb").close()
                            content[disk] = None
                        else:
                            other = self._make(self.env, {"f": arch["f"] + 2, "w": arch["w"] + 4, "d": arch["d"]}, 7)
                            eqx.tree_serialise_leaves(disk, other)
                            content[disk] = "other_arch"
                        tr.ev("preexist", path=op["path"], what=op["what"])
                    elif kind == "tilde_roundtrip":
                        # a path spelled with a leading "~": whatever the library makes of it, save and load must agree on it
                        old_home, here = os.environ.get("HOME"), os.getcwd()
                        os.environ["HOME"] = root
                        os.chdir(root)
                        try:
                            spelled = "~/tl%d/m" % oi
                            try:
                                pols[op["pol"]].serialize(spelled)
                                loaded = self.P.deserialize(spelled, self.env, **ctor_kwargs(self.ptype, arch), key=jr.key(99))
                                ok_rt = self._leaves_equal(loaded, pols[op["pol"]])
                                err = None
                            except Exception as exc:  # noqa: BLE001
                                ok_rt, err = False, exc
                        finally:
                            os.chdir(here)
                            if old_home is None:
                                os.environ.pop("HOME", None)
                            else:
                                os.environ["HOME"] = old_home
                        tr.ev("tilde_roundtrip", ok=ok_rt, raised=type(err).__name__ if err else None)
                        if not ok_rt:
                            res.fail("C18", "path_spelling", "tilde_path_not_consistent_between_save_and_load", raised=type(err).__name__ if err else None)
                        else:
                            res.ok("C18", "path_spelling")
                    elif kind == "load":
                        self._do_load(res, tr, op, arg, disk, content, pols, arch, obs, plan)
                finally:
                    if cwd:
                        os.chdir(old_cwd)
                res.steps += 1
        finally:
            os.chdir(old_cwd)
            shutil.rmtree(root, ignore_errors=True)
        return res

    def _size_of(self, pol, root) -> int:
        p = os.path.join(root, "__size_probe.eqx")
        eqx.tree_serialise_leaves(p, pol)
        n = os.path.getsize(p)
        os.remove(p)
        return n

    def _do_load(self, res, tr, op, arg, disk, content, pols, arch, obs, plan):
        ctor = op["ctor"]
        env, a2 = self.env, dict(arch)
        if ctor == "wider":
            a2["w"] = arch["w"] + 3
        elif ctor == "deeper":
            a2["d"] = arch["d"] + 1
        elif ctor == "bigger_feature":
            a2["f"] = arch["f"] + 1
        elif ctor == "other_env":
            env = self.alt_env
        kwargs = ctor_kwargs(self.ptype, a2)
        stored = content.get(disk, "absent")
        try:
            loaded = self.P.deserialize(arg, env, **kwargs, key=jr.key(123456))
            err = None
        except Exception as exc:  # noqa: BLE001
            loaded, err = None, exc
        tr.ev("load", path=op["path"], ctor=ctor, stored=str(stored), raised=type(err).__name__ if err else None)
        if stored == "absent":
            if err is None:
                res.fail("C18", "path_spelling", "load_of_never_saved_path_returned_a_policy", path=op["path"])
            return
        if stored is None or stored == "other_arch":
            # torn / short / garbage / foreign-architecture file: must raise, or (torn only) equal a complete save
            res.events["E.load_of_damaged_file"] += 1
            if err is None:
                same_as_some = any(self._leaves_equal(loaded, p) for p in pols) if ctor == "same" else False
                if not same_as_some:
                    cause = "foreign_architecture_loaded" if stored == "other_arch" else "partial_or_garbage_file_loaded_silently"
                    res.fail("C18", "torn_never_partial" if stored is None else "mismatch_raises", cause, path=op["path"], ctor=ctor)
            else:
                res.ok("C18", "torn_never_partial")
            return
        expected = pols[stored]
        skeleton = eqx.filter_eval_shape(lambda: self.P(env, **kwargs, key=jr.key(0)))
        shapes_differ = [getattr(x, "shape", None) for x in jax.tree.leaves(skeleton)] != [getattr(x, "shape", None) for x in jax.tree.leaves(expected)]
        if ctor != "same" and shapes_differ:
            res.events["E.mismatch_load"] += 1
            if err is None:
                res.fail("C18", "mismatch_raises", "shape_mismatch_loaded_silently", path=op["path"], ctor=ctor)
            else:
                res.ok("C18", "mismatch_raises")
            return
        if err is not None:
            res.fail("C18", "roundtrip_leaves", f"load_raised:{type(err).__name__}", path=op["path"], message=str(err)[:300])
            return
        if ctor != "same":
            return  # same shapes, other static arguments: nothing is promised
        if not self._leaves_equal(loaded, expected):
            other = [i for i, p in enumerate(pols) if self._leaves_equal(loaded, p)]
            res.fail("C18", "roundtrip_leaves" if not other else "overwrite_wins", "loaded_leaves_differ_from_saved" if not other else "older_content_loaded", path=op["path"], matches_policy=other, expected_policy=stored)
            return
        res.ok("C18", "roundtrip_leaves")
        res.ok("C18", "path_spelling")
        res.ok("C18", "overwrite_wins")
        b1 = jax.device_get(self._behave(expected, obs, jr.key(plan["obs_key"] + 1)))
        b2 = jax.device_get(self._behave(loaded, obs, jr.key(plan["obs_key"] + 1)))
        for k in b1:
            x, y = np.asarray(b1[k]), np.asarray(b2[k])
            if x.tobytes() != y.tobytes():
                res.fail("C18", "roundtrip_behaviour", f"behaviour_differs:{k}", path=op["path"])
                return
        # once more WITHOUT jit, on the objects exactly as constructed / as returned by the loader: passing a policy through jit
        # re-builds its pytree (e.g. re-orders the sub-spaces of a Dict space) and would hide a difference in static structure
        if plan["pols"][stored].get("perturb", "none") != "none":
            res.ok("C18", "roundtrip_behaviour")  # a perturbed policy was re-built by tree surgery already: the jitted comparison said it all
            return
        one = jax.tree.map(lambda x: x[:1], obs)
        e1 = jax.device_get(self._behaviour(expected, one, jr.key(plan["obs_key"] + 2)))
        e2 = jax.device_get(self._behaviour(loaded, one, jr.key(plan["obs_key"] + 2)))
        for k in e1:
            x, y = np.asarray(e1[k]), np.asarray(e2[k])
            if x.dtype.kind == "f":
                same = x.shape == y.shape and np.allclose(x, y, rtol=1e-5, atol=1e-6, equal_nan=True)   # eager vs eager: same ops, but be lenient about fusion
            else:
                same = x.tobytes() == y.tobytes()
            if not same:
                res.fail("C18", "roundtrip_behaviour", f"eager_behaviour_differs:{k}", path=op["path"])
                return
        res.ok("C18", "roundtrip_behaviour")
