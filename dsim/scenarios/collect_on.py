"""S3 `collect_on` — the real on-policy `reset` / `iteration` on SimMDP with a table policy.

Serves C04 (faithful record), C03 (GAE over recorded histories), C12 (node isolation),
C16 (no masked action reaches the environment), C19a (logger statistics on true rewards).

Seams: environment (SimMDP), policy (SimTablePolicy), callback (SpyCallback delegating to
the real LoggingCallback step logic), `train` replaced by a spy that hands the collected
buffer to the callback (so the real `iteration` wiring — vmap over nodes, key splitting,
`collect_rollout`, `post_collect` — is what runs).
"""

from __future__ import annotations

import equinox as eqx
import jax
import numpy as np
from jax import numpy as jnp
from jax import random as jr

from lerax.algorithm import A2C, PPO, REINFORCE
from lerax.wrapper import Identity, TimeLimit

from ..kernel import RunResult, Trace
from ..ref.mdp import RefMDP, RefTablePolicy
from ..ref.onpolicy import NodeRef, check_initial, check_node_rollout
from ..world.mdp import SimMDP, comps_of, dummy_tables, gen_tables, joint_size, np_obs_ids, with_tables
from ..world.observers import SpyCallback, SpyState
from ..world.policy import SimTablePolicy, gen_policy_tables, with_policy_tables

NAME = "collect_on"
PROPS = {"C03", "C04", "C10", "C12", "C16", "C19"}


def _spy(base):
    class Spy(base):
        def train(self, policy, opt_state, buffer, *, key):
            return policy, opt_state, {"buffer": buffer}

    Spy.__name__ = "Spy" + base.__name__
    return Spy


ALGOS = {"PPO": _spy(PPO), "A2C": _spy(A2C), "REINFORCE": _spy(REINFORCE)}


from ..classes import collect_on as classes  # noqa: E402,F401  (shape classes are plain data)


def box_bounds(cls: dict):
    """Bounds of a Box action space: two-sided [-1, 1] by default, one-sided when the class says so."""
    return float(cls.get("box_low", -1.0)), float(cls.get("box_high", 1.0))


def build_env(cls: dict, tables: dict, time_limit: int = 3):
    lo, hi = box_bounds(cls)
    env = SimMDP(cls["kind"], tuple(cls["dims"]), cls["obs_kind"], tables, box_low=lo, box_high=hi)
    for w in cls["stack"]:
        if w == "TimeLimit":
            env = TimeLimit(env, time_limit)
        elif w == "Identity":
            env = Identity(env)
        elif w == "RescaleAction":
            from lerax.wrapper import RescaleAction

            env = RescaleAction(env, jnp.array(-2.0), jnp.array(2.0))   # dyadic: the affine map is exact in float32
        else:
            raise ValueError(w)
    return env


def outer_bounds(cls: dict):
    return (-2.0, 2.0) if "RescaleAction" in cls.get("stack", []) else None


def replace_inner(env, new_inner):
    if isinstance(env, SimMDP):
        return new_inner
    return eqx.tree_at(lambda w: w.env, env, replace_inner(env.env, new_inner))


def set_time_limit(env, n: int):
    if isinstance(env, SimMDP):
        return env
    if isinstance(env, TimeLimit):
        env = eqx.tree_at(lambda w: w.max_episode_steps, env, jnp.array(n, dtype=int))
    return eqx.tree_at(lambda w: w.env, env, set_time_limit(env.env, n))


def tl_count_of(env_state):
    """TimeLimit.step_count inside a (possibly nested) wrapper state, or None."""
    st = env_state
    while hasattr(st, "env_state"):
        if hasattr(st, "step_count"):
            return st.step_count
        st = st.env_state
    return None


class Runner:
    def __init__(self, cls: dict):
        self.cls = cls
        self.kind = cls["kind"]
        self.comps = comps_of(self.kind, tuple(cls["dims"]))
        self.NS = cls["S"] + 1
        self.has_tl = "TimeLimit" in cls["stack"]
        tables = dummy_tables(cls["S"], self.kind, tuple(cls["dims"]), masked=cls["masked"])
        self.env0 = build_env(cls, tables)
        import random

        ptab = gen_policy_tables(random.Random(0), NS=self.NS, kind=self.kind, comps=self.comps)
        self.policy0 = SimTablePolicy(self.env0, ptab)
        Algo = ALGOS[cls["algo"]]
        kw = dict(num_envs=cls["n"], num_steps=cls["T"], gamma=jnp.array(0.9))
        if cls["algo"] != "REINFORCE":
            kw["gae_lambda"] = jnp.array(0.9)
        self.static_hp = cls.get("static_hp")
        if self.static_hp:
            kw["gamma"] = float(self.static_hp["gamma"])
            kw["gae_lambda"] = float(self.static_hp["lam"])
        algo = Algo(**kw)
        if cls["algo"] == "REINFORCE":
            algo = eqx.tree_at(lambda a: a.gae_lambda, algo, jnp.array(1.0))
        self.algo0 = algo
        self.cb0 = SpyCallback(alpha=jnp.array(0.9))
        self.cb_log = SpyCallback(alpha=jnp.array(0.9), log_iter=True)  # used for C19 only (adds host callbacks)
        self._reset = eqx.filter_jit(lambda algo, env, policy, key, cb: algo.reset(env, policy, key=key, callback=cb))
        self._iter = eqx.filter_jit(lambda algo, state, key, cb: algo.iteration(state, key=key, callback=cb))
        # the same vmapped call `iteration` performs, and the single-environment call (C12)
        self._vcollect = eqx.filter_jit(
            lambda algo, env, policy, ss, cb, keys: eqx.filter_vmap(algo.collect_rollout, in_axes=(None, None, eqx.if_array(0), None, 0))(env, policy, ss, cb, keys)
        )
        self._scollect = eqx.filter_jit(lambda algo, env, policy, ss, cb, key: algo.collect_rollout(env, policy, ss, cb, key))

    # ------------------------------------------------------------------ plans

    def gen(self, rng, prop: str) -> dict:
        cls = self.cls
        bias = {}
        mode = rng.choice(["plain", "term_heavy", "trunc_heavy", "both_heavy", "quiet"])
        if mode == "term_heavy":
            bias = {"p_term": 0.5, "p_trunc": 0.0}
        elif mode == "trunc_heavy":
            bias = {"p_term": 0.0, "p_trunc": 0.3}
        elif mode == "both_heavy":
            bias = {"p_term": 0.4, "p_trunc": 0.4}
        elif mode == "quiet":
            bias = {"p_term": 0.0, "p_trunc": 0.0}
        tables = gen_tables(rng, S=cls["S"], kind=self.kind, dims=tuple(cls["dims"]), masked=cls["masked"], bias=bias)
        if mode == "both_heavy":
            # states that are terminal AND truncating at once (E.both without the time limit)
            for s in range(cls["S"]):
                if tables["term"][s] and rng.random() < 0.5:
                    tables["trunc"][s] = True
        ptab = gen_policy_tables(rng, NS=self.NS, kind=self.kind, comps=self.comps, oob=0.6)
        if rng.random() < 0.4:
            # the critic is UNDEFINED (infinite) on terminal observations nobody ever acts on or bootstraps from: a correct collector
            # never lets such a value reach a stored quantity (a "branchless" 0 * V would turn it into NaN)
            for s_ in range(len(tables["term"])):
                if tables["term"][s_] and s_ not in tables["init"] and rng.random() < 0.6:
                    ptab["values"][s_] = rng.choice([float("inf"), float("-inf")])
        n_iter = rng.randint(1, 4)
        gamma = rng.choice([0.5, 0.75, 0.9, 0.99, 1.0])
        lam = rng.choice([0.0, 1.0, 0.5, 0.9, 0.95])
        if cls["algo"] == "REINFORCE":
            lam = 1.0
        if cls.get("static_hp"):
            gamma, lam = float(cls["static_hp"]["gamma"]), float(cls["static_hp"]["lam"])
        plan = {
            "scenario": NAME,
            "cls": cls,
            "mode": mode,
            "knobs": {
                "gamma": gamma,
                "lam": lam,
                "alpha": rng.choice([0.9, 0.5, 0.1, 1.0]),
                "time_limit": rng.choice([1, 2, 2, 3, 3, 4, 6, 1000]),
            },
            "world": tables,
            "policy": ptab,
            "ops": [{"op": "reset", "key": rng.getrandbits(31)}] + [{"op": "iter", "key": rng.getrandbits(31)} for _ in range(n_iter)],
            "faults": [],
        }
        if cls["n"] > 1 and prop == "C12":
            plan["slice_key"] = rng.getrandbits(31)
        if cls["n"] > 1 and (prop == "C12" or rng.random() < 0.15):
            plan["faults"].append(
                {
                    "kind": "node_perturb",
                    "node": rng.randrange(cls["n"]),
                    "at_op": rng.randint(1, n_iter),
                    "what": rng.choice(["start_state", "policy_state", "start_state"]),
                    "to": rng.randrange(cls["S"]),
                }
            )
        return plan

    # ------------------------------------------------------------------ execution

    def _materialise(self, plan):
        kn = plan["knobs"]
        inner = with_tables(self.env0.unwrapped, plan["world"])
        env = replace_inner(self.env0, inner)
        env = set_time_limit(env, int(kn["time_limit"]))
        policy = with_policy_tables(self.policy0, plan["policy"])
        if self.static_hp:
            algo = self.algo0  # Python-float hyper-parameters stay as constructed
        else:
            algo = eqx.tree_at(lambda a: (a.gamma, a.gae_lambda), self.algo0, (jnp.array(kn["gamma"], dtype=float), jnp.array(kn["lam"], dtype=float)))
        cb = eqx.tree_at(lambda c: c.inner.alpha, self.cb_log if getattr(self, "_want_log", False) else self.cb0, jnp.array(kn["alpha"], dtype=float))
        return env, policy, algo, cb

    def _node_view(self, tree, i):
        if self.cls["n"] == 1:
            return tree
        return jax.tree.map(lambda x: x[i], tree)

    def _records(self, state):
        """NumPy view of the buffer handed to `train` and of the carried step state."""
        n = self.cls["n"]
        buf = state.callback_state.log["buffer"]
        ss = state.step_state
        host = jax.device_get((buf, ss))
        buf, ss = host

        def lead(x):
            x = np.asarray(x)
            return x[None] if n == 1 else x

        obs = jax.tree.map(lead, buf.observations)
        obs_ids = np_obs_ids(obs)
        if self.cls["obs_kind"] == "box":
            rows = np.asarray(obs)
        elif self.cls["obs_kind"] == "dict":
            rows = np.concatenate([obs["id"], obs["feat"]], axis=-1)
        elif self.cls["obs_kind"] == "tuple":
            rows = np.concatenate([obs[0], obs[1]], axis=-1)
        else:
            rows = None
        tl = tl_count_of(ss.env_state)
        cbs = ss.callback_state
        recs = []
        for i in range(n):
            rec = {
                "obs_ids": obs_ids[i],
                "obs_rows": rows[i] if rows is not None else np.asarray(plan_obs_rows(obs_ids[i], self._cur_obs)),
                "actions": lead(buf.actions)[i],
                "rewards": lead(buf.rewards)[i],
                "dones": lead(buf.dones)[i],
                "log_probs": lead(buf.log_probs)[i],
                "values": lead(buf.values)[i],
                "pol_k": lead(buf.states.k)[i],
                "masks": None if buf.action_masks is None else lead(buf.action_masks)[i],
                "returns": lead(buf.returns)[i],
                "advantages": lead(buf.advantages)[i],
                "env_s": lead(ss.env_state.unwrapped.s)[i],
                "env_t": lead(ss.env_state.unwrapped.t)[i],
                "tl_count": None if tl is None else lead(tl)[i],
                "pol_k_after": lead(ss.policy_state.k)[i],
                "log_step": lead(cbs.step)[i],
                "log_ep_ret": lead(cbs.episode_return)[i],
                "log_ep_len": lead(cbs.episode_length)[i],
                "log_ep_done": lead(cbs.episode_done)[i],
                "log_avg_ret": lead(cbs.average_return)[i],
                "log_avg_len": lead(cbs.average_length)[i],
            }
            recs.append(rec)
        return recs

    def execute(self, plan: dict, props: set | None = None) -> RunResult:
        props = set(props or PROPS)
        cls = self.cls
        n = cls["n"]
        kn = plan["knobs"]
        res = RunResult(Trace())
        tr = res.trace
        self._want_log = props == {"C19"}
        env, policy, algo, cb = self._materialise(plan)
        if self._want_log:
            cb.recorder.clear()
        self._cur_obs = np.asarray(plan["world"]["obs"])
        mdp = RefMDP(self.kind, self.comps, plan["world"], *box_bounds(self.cls), time_limit=int(kn["time_limit"]) if self.has_tl else None, outer=outer_bounds(self.cls))
        pol = RefTablePolicy(self.kind, self.comps, plan["policy"])
        gamma, lam, alpha = float(kn["gamma"]), float(kn["lam"]), float(kn["alpha"])
        faults = {f["at_op"]: f for f in plan.get("faults", [])}
        state = None
        nodes: list[NodeRef] = []
        for oi, op in enumerate(plan["ops"]):
            if op["op"] == "reset":
                tr.ev("op", op="reset", key=op["key"])
                state = self._reset(algo, env, policy, jr.key(op["key"]), cb)
                ss = jax.device_get(state.step_state)
                tl = tl_count_of(ss.env_state)

                def lead(x):
                    x = np.asarray(x)
                    return x[None] if n == 1 else x

                nodes = []
                for i in range(n):
                    node = NodeRef(cur_s=int(lead(ss.env_state.unwrapped.s)[i]))
                    if "C04" in props:
                        check_initial(res, mdp, node, i, int(lead(ss.env_state.unwrapped.t)[i]), None if tl is None else int(lead(tl)[i]), int(lead(ss.policy_state.k)[i]))
                    nodes.append(node)
                    tr.ev("node_start", node=i, s=node.cur_s)
                if int(state.iteration_count) != 0:
                    res.fail("C10", "iteration_counter", "not_zero_after_reset")
                if "C12" in props and n > 1 and plan.get("slice_key") is not None:
                    self._slice_check(res, algo, env, policy, state.step_state, cb, plan["slice_key"])
                continue
            # ---- iteration
            tr.ev("op", op="iter", key=op["key"], index=oi)
            state_in = state
            it_before = int(state.iteration_count)
            state = self._iter(algo, state_in, jr.key(op["key"]), cb)
            recs = self._records(state)
            for i in range(n):
                check_node_rollout(res, props, mdp, pol, nodes[i], i, recs[i], gamma, lam, alpha, trace=tr)
            if int(state.iteration_count) != it_before + 1:
                res.fail("C10", "iteration_counter", "not_incremented", got=int(state.iteration_count), expected=it_before + 1)
            else:
                res.ok("C10", "iteration_counter")
            if self._want_log:
                jax.effects_barrier()
                self._check_iteration_record(res, cb.recorder, recs, oi)
            # ---- injected fault: perturb one node and demand bit-identical other nodes
            f = faults.get(oi)
            if f is not None and n > 1 and "C12" in props:
                self._perturb_check(res, f, algo, state_in, op["key"], cb, state)
            state = eqx.tree_at(lambda s: s.callback_state, state, SpyState(None), is_leaf=lambda x: x is None)
        return res

    # ------------------------------------------------------------------ minimisation

    def shrink_candidates(self, plan: dict):
        """Simpler plans inside the same shape class (ddmin step candidates)."""
        import copy

        def variant(fn):
            p = copy.deepcopy(plan)
            fn(p)
            return p if p != plan else None

        S = self.cls["S"]
        iters = [o for o in plan["ops"] if o["op"] == "iter"]
        cands = []
        if len(iters) > 1:
            cands.append(lambda p: p["ops"].pop())
        if plan.get("faults"):
            cands.append(lambda p: p["faults"].clear())
        cands.append(lambda p: p["knobs"].__setitem__("time_limit", 1000))
        cands.append(lambda p: p["world"].__setitem__("term", [False] * (S + 1)))
        cands.append(lambda p: p["world"].__setitem__("trunc", [False] * (S + 1)))

        def determinise(p):
            for row in p["world"]["succ"]:
                for br in row:
                    br[1] = br[0]
            p["world"]["p_branch"] = 0.0

        cands.append(determinise)
        if plan["world"].get("mask") is not None:
            cands.append(lambda p: p["world"].__setitem__("mask", [[True] * len(r) for r in p["world"]["mask"]]))
        cands.append(lambda p: p["world"].__setitem__("rew_w", [0.0] * (S + 1)))

        def zero_rewards(p):
            for s in range(S):
                for a in range(len(p["world"]["rew"][s])):
                    p["world"]["rew"][s][a] = [0.0] * (S + 1)

        cands.append(zero_rewards)
        cands.append(lambda p: p["world"].__setitem__("init", [p["world"]["init"][0]] * len(p["world"]["init"])))
        cands.append(lambda p: p["policy"].__setitem__("kbias", [[0.0] * len(r) for r in p["policy"]["kbias"]]))
        cands.append(lambda p: p["policy"].__setitem__("logits", [[0.0] * len(r) for r in p["policy"]["logits"]]))
        cands.append(lambda p: p["knobs"].__setitem__("gamma", 1.0))
        cands.append(lambda p: p["knobs"].__setitem__("lam", 1.0))
        cands.append(lambda p: p["knobs"].__setitem__("alpha", 1.0))
        for fn in cands:
            v = variant(fn)
            if v is not None:
                yield v

    def _check_iteration_record(self, res, rec, recs, oi):
        """The record the back-end received for this iteration: cumulative steps = sum over nodes,
        episode statistics = mean over nodes of the per-node statistics (verified separately)."""
        scal = [c for c in rec.calls if c["call"] == "log_scalars"]
        n_iter = sum(1 for _ in scal)
        if n_iter != oi:
            res.fail("C19", "records_in_order", "one_record_per_iteration_expected", got=n_iter, expected=oi)
            return
        last = scal[-1]
        steps = [c["step"] for c in scal]
        if steps != sorted(steps):
            res.fail("C19", "records_in_order", "records_out_of_order", steps=steps)
        want_step = int(sum(int(r["log_step"]) for r in recs))
        if int(last["step"]) != want_step:
            per_node = [int(r["log_step"]) for r in recs]
            res.fail("C19", "cumulative_steps", "step_is_not_the_sum_over_environments", got=int(last["step"]), expected=want_step, per_node=per_node)
        else:
            res.ok("C19", "cumulative_steps")
        want_ret = float(np.mean([float(r["log_avg_ret"]) for r in recs]))
        want_len = float(np.mean([float(r["log_avg_len"]) for r in recs]))
        got_ret, got_len = last["scalars"].get("episode/return"), last["scalars"].get("episode/length")
        if got_ret is None or got_len is None or abs(got_ret - want_ret) > 1e-5 * max(1.0, abs(want_ret)) or abs(got_len - want_len) > 1e-5 * max(1.0, abs(want_len)):
            res.fail("C19", "per_node", "record_is_not_the_mean_over_environments", got=[got_ret, got_len], expected=[want_ret, want_len])
        else:
            res.ok("C19", "records_in_order")

    def _slice_check(self, res, algo, env, policy, step_state, cb, key_int):
        """N parallel collections == N independent single collections from the same keys/states."""
        n = self.cls["n"]
        keys = jr.split(jr.key(key_int), n)
        vm = jax.device_get(self._vcollect(algo, env, policy, step_state, cb, keys))
        paths = [jax.tree_util.keystr(p) for p, _ in jax.tree_util.tree_leaves_with_path(vm)]
        for i in range(n):
            ss_i = jax.tree.map(lambda x: x[i], step_state)
            single = jax.device_get(self._scollect(algo, env, policy, ss_i, cb, keys[i]))
            for path, x, y in zip(paths, jax.tree.leaves(vm), jax.tree.leaves(single)):
                x, y = np.asarray(x)[i], np.asarray(y)
                if x.shape != y.shape:
                    res.fail("C12", "node_slice_equals_single", "shape_differs", node=i, leaf=path)
                    return
                same = np.allclose(x, y, rtol=1e-6, atol=1e-6, equal_nan=True) if x.dtype.kind == "f" else np.array_equal(x, y)
                if not same:
                    res.fail("C12", "node_slice_equals_single", "slice_differs_from_single_collection", node=i, leaf=path, got=x.tolist(), expected=y.tolist())
                    return
        res.ok("C12", "node_slice_equals_single", n)

    def _perturb_check(self, res, f, algo, state_in, key, cb, state_out):
        j = f["node"]
        if f["what"] == "start_state":
            new_s = state_in.step_state.env_state.unwrapped.s.at[j].set(f["to"])
            pert = _set_unwrapped_s(state_in, new_s)
        else:
            new_k = state_in.step_state.policy_state.k.at[j].add(1)
            pert = eqx.tree_at(lambda s: s.step_state.policy_state.k, state_in, new_k)
        out2 = self._iter(algo, pert, jr.key(key), cb)
        a = jax.device_get((state_out.callback_state.log["buffer"], state_out.step_state))
        b = jax.device_get((out2.callback_state.log["buffer"], out2.step_state))
        la, lb = jax.tree.leaves(a), jax.tree.leaves(b)
        paths = [jax.tree_util.keystr(p) for p, _ in jax.tree_util.tree_leaves_with_path(a)]
        res.faults["F.node_perturb"] += 1
        changed_self = False
        for path, x, y in zip(paths, la, lb):
            x = np.asarray(x)
            y = np.asarray(y)
            for i in range(self.cls["n"]):
                same = np.array_equal(x[i], y[i], equal_nan=True) if x.dtype.kind == "f" else np.array_equal(x[i], y[i])
                if i == j:
                    changed_self = changed_self or not same
                elif not same:
                    res.fail("C12", "node_noninterference", "other_node_changed", perturbed=j, node=i, leaf=path, what=f["what"])
                    return
        res.ok("C12", "node_noninterference")
        if changed_self:
            res.probes["perturbation_visible_in_own_node"] += 1


def _set_unwrapped_s(state, new_s):
    """Replace the `s` leaf of the innermost SimState inside the algorithm state."""
    es = state.step_state.env_state
    depth = 0
    st = es
    while hasattr(st, "env_state"):
        st = st.env_state
        depth += 1

    def where(s):
        x = s.step_state.env_state
        for _ in range(depth):
            x = x.env_state
        return x.s

    return eqx.tree_at(where, state, new_s)


def plan_obs_rows(ids, obs_table):
    return np.asarray(obs_table)[np.asarray(ids)]
