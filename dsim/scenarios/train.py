"""S7 `train` — the full `learn` of all five algorithms under observer sets and host faults.

Serves C11 (same inputs -> bit-identical parameters, same process and fresh process with
another PYTHONHASHSEED; different key -> different run; input policy untouched; observers
and host-fault schedules do not change the trained policy), C10 (exactly
floor(total/(n*T)) iterations, cumulative step counts) and C19b (log records reach every
back-end in iteration order, identical across back-ends, unaffected by the interleaving of
the video task chosen by the simulated executor).

Seams: logging back-ends (RecordingBackend + real Console/TensorBoard), the thread pool of
LoggingCallback (SimExecutor: parked real thread released at plan-chosen points, one thread
runs at a time), wall clock (`datetime` in the logging module), stdout.
"""

from __future__ import annotations

import concurrent.futures
import contextlib
import copy
import hashlib
import io
import json
import os
import shutil
import subprocess
import sys
import tempfile
import threading

import equinox as eqx
import jax
import numpy as np
from jax import numpy as jnp
from jax import random as jr

from lerax.algorithm import A2C, DQN, PPO, REINFORCE, SAC
from lerax.callback import ConsoleBackend, LoggingCallback, ProgressBarCallback, TensorBoardBackend
from lerax.policy import MLPActorCriticPolicy, MLPQPolicy, MLPSACPolicy
from lerax.wrapper import TimeLimit

from ..classes import train as classes  # noqa: F401
from ..kernel import VERIF_ROOT, RunResult, Trace
from ..world.mdp import SimMDP, dummy_tables, gen_tables, with_tables
from ..world.observers import Recorder, RecordingBackend
from .collect_on import replace_inner

NAME = "train"
PROPS = {"C10", "C11", "C19", "C02"}


class InjectedBackendError(RuntimeError):
    pass


class Sched:
    """Decides when the parked video task runs; owned by the plan."""

    def __init__(self):
        self.mode = "early"
        self.pending: list = []
        self.events_since_submit = 0
        self.raise_at = None  # k-th log_scalars call raises
        self.scalar_calls = 0
        self.fired = {}

    def reset(self, mode="early", raise_at=None):
        self.mode, self.pending, self.events_since_submit, self.raise_at, self.scalar_calls, self.fired = mode, [], 0, raise_at, 0, {}

    def backend_event(self, tag: str, kind: str):
        if kind == "log_scalars":
            self.scalar_calls += 1
            if self.raise_at is not None and self.scalar_calls == self.raise_at:
                self.fired["F.backend_raise"] = self.fired.get("F.backend_raise", 0) + 1
                raise InjectedBackendError("injected back-end failure")
        if kind in ("log_scalars", "log_hparams") and self.pending and self.mode.startswith("late"):
            self.events_since_submit += 1
            if self.events_since_submit >= int(self.mode.split(":")[1]):
                self.run_pending("F.video_late")

    def run_pending(self, label: str):
        while self.pending:
            task = self.pending.pop(0)
            self.fired[label] = self.fired.get(label, 0) + 1
            task.run_blocking()
        self.events_since_submit = 0


class _Task:
    def __init__(self, fn, args, kwargs):
        self.fn, self.args, self.kwargs = fn, args, kwargs
        self.done = False
        self.exc = None

    def run_blocking(self):
        """Run on a fresh real thread while the releasing thread waits: one thread at a time."""

        def body():
            try:
                self.fn(*self.args, **self.kwargs)
            except BaseException as exc:  # noqa: BLE001
                self.exc = exc
            self.done = True

        th = threading.Thread(target=body, name="sim-executor-task")
        th.start()
        th.join()


SCHED = Sched()


class SimExecutor:
    def __init__(self, max_workers=1, **kw):
        self.sched = SCHED

    def submit(self, fn, *args, **kwargs):
        task = _Task(fn, args, kwargs)
        self.sched.pending.append(task)
        if self.sched.mode == "early":
            self.sched.run_pending("F.video_early")
        return task

    def shutdown(self, wait=True, **kw):
        if self.sched.mode == "never":
            if self.sched.pending:
                self.sched.fired["F.video_never"] = self.sched.fired.get("F.video_never", 0) + len(self.sched.pending)
            self.sched.pending.clear()
        else:
            self.sched.run_pending("F.video_at_close")


def leaves_digest(tree) -> str:
    h = hashlib.sha256()
    for x in jax.tree.leaves(eqx.filter(tree, eqx.is_array)):
        a = np.asarray(x)
        h.update(str(a.dtype).encode() + str(a.shape).encode() + a.tobytes())
    return h.hexdigest()


def array_leaves(tree) -> list:
    return [np.asarray(x) for x in jax.tree.leaves(eqx.filter(tree, eqx.is_array))]


def build_algo(cls: dict):
    a, n, T = cls["algo"], cls["n"], cls["T"]
    if a == "PPO":
        return PPO(num_envs=n, num_steps=T, num_epochs=2, num_batches=2, **dict(cls.get("algo_kwargs", {})))
    if a == "A2C":
        return A2C(num_envs=n, num_steps=T)
    if a == "REINFORCE":
        return REINFORCE(num_envs=n, num_steps=T)
    if a == "DQN":
        return DQN(buffer_size=32 * n, learning_starts=cls["starts"], num_envs=n, num_steps=T, batch_size=4, target_update_interval=2)
    return SAC(buffer_size=32 * n, learning_starts=cls["starts"], num_envs=n, num_steps=T, batch_size=4, q_width_size=8, q_depth=1, policy_frequency=2)


def build_env(cls: dict):
    e = cls["env"]
    if e == "sim_discrete":
        return TimeLimit(SimMDP("discrete", (3,), "box", dummy_tables(5, "discrete", (3,))), 5)
    if e == "sim_box":
        return TimeLimit(SimMDP("box", (2,), "box", dummy_tables(5, "box", (2,))), 5)
    if e == "sim_dict":
        # Dict observation with five string keys: anything ordered by string hashes differs between interpreters
        return TimeLimit(SimMDP("discrete", (3,), "dictwide", dummy_tables(5, "discrete", (3,), D=5)), 5)
    if e == "gym_peer":
        from lerax.compatibility.gym import GymToLeraxEnv

        from .peers import SimGymEnv

        peer = SimGymEnv(6, 3)
        peer.load(dummy_tables(5, "discrete", (3,)), 4)
        return GymToLeraxEnv(peer)
    if e == "cartpole":
        from lerax.env.classic_control import CartPole

        return TimeLimit(CartPole(), 12)
    if e == "pendulum":
        from lerax.env.classic_control import Pendulum

        return TimeLimit(Pendulum(), 12)
    raise ValueError(e)


def build_policy(cls: dict, env, key_int: int):
    a = cls["algo"]
    if a in ("PPO", "A2C", "REINFORCE"):
        return MLPActorCriticPolicy(env, feature_size=4, feature_width=8, value_width=8, action_width=8, key=jr.key(key_int))
    if a == "DQN":
        return MLPQPolicy(env, epsilon=0.2, width_size=8, depth=1, key=jr.key(key_int))
    return MLPSACPolicy(env, feature_size=8, width_size=8, depth=1, key=jr.key(key_int))


def config_digest(obj, depth: int = 0):
    """Canonical, hashable description of everything an environment object is configured with: array leaves by content,
    static fields (dicts, tuples, numbers, strings, nested modules) by value.  Opaque foreign objects by type name only."""
    import dataclasses

    if depth > 6:
        return "..."
    if isinstance(obj, (jax.Array, np.ndarray, np.generic)):
        a = np.asarray(obj)
        return ("arr", str(a.dtype), tuple(a.shape), hashlib.sha256(a.tobytes()).hexdigest()[:16])
    if isinstance(obj, (bool, int, float, str, type(None))):
        return obj
    if isinstance(obj, dict):
        return ("dict", tuple((str(k), config_digest(v, depth + 1)) for k, v in sorted(obj.items(), key=lambda kv: str(kv[0]))))
    if isinstance(obj, (list, tuple)):
        return (type(obj).__name__, tuple(config_digest(v, depth + 1) for v in obj))
    if dataclasses.is_dataclass(obj) and not isinstance(obj, type):
        out = []
        for f in dataclasses.fields(obj):
            try:
                out.append((f.name, config_digest(getattr(obj, f.name), depth + 1)))
            except Exception:  # noqa: BLE001
                out.append((f.name, "<unreadable>"))
        return (type(obj).__name__, tuple(out))
    return ("opaque", type(obj).__name__)


class CtorPurityRunner:
    """Building ANOTHER environment object must not change one that already exists, nor what a default construction gives
    (training is a function of the environment passed in — not of what else was constructed in the process before)."""

    def __init__(self, cls: dict):
        self.cls = cls

    def gen(self, rng, prop: str) -> dict:
        # one environment that has dict-valued options (the G1 tasks) and one of the others in every run
        rich = [e for e in self.cls["envs"] if e.startswith("G1")]
        rest = [e for e in self.cls["envs"] if not e.startswith("G1")]
        return {"scenario": NAME, "cls": self.cls, "faults": [], "ops": [{"op": "ctor_purity", "env": rng.choice(rich), "pick": rng.getrandbits(16)},
                                                                        {"op": "ctor_purity", "env": rng.choice(rest), "pick": rng.getrandbits(16)}]}

    def shrink_candidates(self, plan: dict):
        return iter(())

    def execute(self, plan: dict, props: set | None = None) -> RunResult:
        import importlib
        import inspect

        from .rollout import ENVS

        res = RunResult(Trace())
        for op in plan["ops"]:
            mod, name = ENVS[op["env"]]
            ctor = getattr(importlib.import_module(mod), name)
            first = ctor()
            d0 = config_digest(first)
            # non-default arguments, derived from the signature: every option whose default is None and which the built object
            # holds as a dict / tuple / array under the same name gets a modified COPY of that value
            overrides = {}
            import dataclasses

            fields = [f.name for f in dataclasses.fields(first)] if dataclasses.is_dataclass(first) else []
            for pname, par in inspect.signature(ctor.__init__).parameters.items():
                if pname == "self" or par.default is not None:
                    continue
                cur = getattr(first, pname, None)
                if isinstance(cur, dict) and cur:
                    k = sorted(cur, key=str)[op["pick"] % len(cur)]
                    v = cur[k]
                    overrides[pname] = {k: (0.0 if isinstance(v, (int, float)) and v != 0.0 else 1.5)}
                elif "dict" in str(par.annotation) and "_" in pname:
                    # a dict-valued option that is unpacked into fields `<stem>_<key>` (e.g. reward_weights -> reward_alive, ...)
                    stem = pname.split("_")[0] + "_"
                    keys = sorted(f[len(stem):] for f in fields if f.startswith(stem) and f != pname)
                    if keys:
                        overrides[pname] = {keys[op["pick"] % len(keys)]: 1.5}
            try:
                other = ctor(**overrides)
            except Exception as exc:  # noqa: BLE001
                res.probes["override_construction_failed"] += 1
                res.trace.ev("ctor_purity", env=op["env"], overrides=sorted(overrides), failed=type(exc).__name__)
                continue
            again = ctor()
            res.trace.ev("ctor_purity", env=op["env"], overrides=sorted(overrides))
            res.steps += 3
            if overrides:
                res.faults["F.other_object_built_with_overrides"] += 1
            del other
            for P in sorted(set(props or {"C11", "C02"}) & {"C11", "C02"}):
                # C11: training is a function of the environment passed in; C02: signals do not depend on Python-side state
                if config_digest(first) != d0:
                    res.fail(P, "environment_is_its_own", "existing_environment_changed_by_building_another_one", env=op["env"], overrides=sorted(overrides))
                elif config_digest(again) != d0:
                    res.fail(P, "environment_is_its_own", "default_construction_depends_on_what_was_built_before", env=op["env"], overrides=sorted(overrides))
                else:
                    res.ok(P, "environment_is_its_own")
        return res


class Runner:
    def __new__(cls_, cls: dict):
        if cls.get("mode") == "ctor_purity":
            return CtorPurityRunner(cls)
        return super().__new__(cls_)

    def __init__(self, cls: dict):
        self.cls = cls
        self.algo = build_algo(cls)
        self.env0 = build_env(cls)
        self.rec = Recorder()
        self.rec.fault = SCHED.backend_event
        self.tmp = None
        self.totals = cls["totals"]
        self.observer = self._build_observer(cls["observer"])

    def _build_observer(self, kind: str):
        cls = self.cls
        if kind == "none":
            return None
        if kind == "rec1":
            return LoggingCallback(RecordingBackend(self.rec, "a"), name="run")
        if kind == "rec2":
            return LoggingCallback([RecordingBackend(self.rec, "a"), RecordingBackend(self.rec, "b")], name="run", alpha=0.5)
        if kind == "console":
            with contextlib.redirect_stdout(io.StringIO()):
                return LoggingCallback([ConsoleBackend(), RecordingBackend(self.rec, "a")], name="run")
        if kind == "tb":
            self.tmp = tempfile.mkdtemp(prefix="dsim-tb-")
            return LoggingCallback([TensorBoardBackend(self.tmp), RecordingBackend(self.rec, "a")], name="run")
        if kind == "progress":
            return ProgressBarCallback(total_timesteps=max(self.totals), name="sim")
        if kind == "list":
            return [LoggingCallback(RecordingBackend(self.rec, "a"), name="run"), ProgressBarCallback(total_timesteps=max(self.totals), name="sim")]
        if kind == "clock":
            # run name taken from the (simulated) wall clock
            import lerax.callback.logging.callback as mod

            class SimDatetime:
                @staticmethod
                def now():
                    import datetime as _dt

                    return _dt.datetime(1999, 12, 31, 23, 59, 59)

            real = mod.datetime
            mod.datetime = SimDatetime
            try:
                return LoggingCallback(RecordingBackend(self.rec, "a"), env=self.env0)
            finally:
                mod.datetime = real
        if kind == "video":
            real = concurrent.futures.ThreadPoolExecutor
            concurrent.futures.ThreadPoolExecutor = SimExecutor
            try:
                return LoggingCallback(RecordingBackend(self.rec, "a"), name="run", video_interval=cls.get("video_interval", 1), video_num_steps=3,
                                       video_width=64, video_height=48)
            finally:
                concurrent.futures.ThreadPoolExecutor = real
        raise ValueError(kind)

    # ------------------------------------------------------------------ plans

    def gen(self, rng, prop: str) -> dict:
        cls = self.cls
        plan = {
            "scenario": NAME, "cls": cls,
            "policy_key": rng.getrandbits(31), "learn_key": rng.getrandbits(31), "total": rng.choice(self.totals),
            "ops": ["baseline", "repeat", "other_key", "observed"] + (["spy_targets"] if (prop == "C10" and cls["algo"] in ("DQN", "SAC")) else []),
            "faults": [],
        }
        if cls["env"].startswith("sim") or cls["env"] == "gym_peer":
            kind = "box" if cls["env"] == "sim_box" else "discrete"
            dims = (3,) if kind == "discrete" else (2,)
            plan["world"] = gen_tables(rng, S=5, kind=kind, dims=dims, D=5 if cls["env"] == "sim_dict" else 3, bias={"single_init": False, "p_stochastic": 0.0} if cls["env"] == "gym_peer" else None)
            plan["time_limit"] = rng.choice([2, 3, 5, 1000]) if cls["env"] != "gym_peer" else rng.choice([2, 3, 5])
        if cls["observer"] == "video":
            plan["faults"].append({"kind": "video_schedule", "mode": rng.choice(["early", "late:1", "late:2", "late:3", "at_close", "never"])})
        if cls["observer"] in ("rec1", "rec2") and rng.random() < 0.2:
            plan["faults"].append({"kind": "backend_raise", "at": rng.randint(1, 4)})
        if prop == "C11" and rng.random() < cls.get("p_fresh", 0.1):
            plan["ops"].append("fresh_process")
            plan["hashseed"] = rng.choice(["0", "1", "12345", "random"])
            plan["child_imports"] = rng.choice(["none", "all"])
        return plan

    def shrink_candidates(self, plan: dict):
        for i in range(len(plan["ops"])):
            if plan["ops"][i] not in ("baseline",) and len(plan["ops"]) > 1:
                p = copy.deepcopy(plan)
                p["ops"].pop(i)
                yield p
        if plan["faults"]:
            p = copy.deepcopy(plan)
            p["faults"] = []
            yield p

    # ------------------------------------------------------------------ execution

    def _env_for(self, plan):
        if self.cls["env"] == "gym_peer":
            # the peer is a Python object with hidden state behind the adapter; its tables are (re)loaded per run
            self.env0.env.load(plan["world"], int(plan["time_limit"]))
            return self.env0
        if "world" not in plan:
            return self.env0
        inner = with_tables(self.env0.unwrapped, plan["world"])
        env = replace_inner(self.env0, inner)
        return eqx.tree_at(lambda w: w.max_episode_steps, env, jnp.array(int(plan["time_limit"]), dtype=int))

    def baseline(self, plan):
        env = self._env_for(plan)
        policy = build_policy(self.cls, env, plan["policy_key"])
        out = self.algo.learn(env, policy, int(plan["total"]), key=jr.key(plan["learn_key"]))
        jax.block_until_ready(out)
        return env, policy, out

    def execute(self, plan: dict, props: set | None = None) -> RunResult:
        props = set(props or PROPS)
        cls = self.cls
        res = RunResult(Trace())
        tr = res.trace
        n, T = cls["n"], cls["T"]
        total = int(plan["total"])
        iters = total // (n * T)
        if total % (n * T):
            res.events["E.total_not_multiple"] += 1
        env = self._env_for(plan)
        policy = build_policy(cls, env, plan["policy_key"])
        before = [a.copy() for a in array_leaves(policy)]
        key = jr.key(plan["learn_key"])
        base = None
        for op in plan["ops"]:
            if op == "baseline":
                if cls.get("prior_history"):
                    # F.prior_training: ANOTHER configuration of the same algorithm class is trained first in this process (and its
                    # result thrown away); what the configuration under test then computes must not depend on that history
                    prior = build_algo({**cls, "algo_kwargs": {}})
                    jax.block_until_ready(prior.learn(env, policy, n * T, key=jr.key(plan["learn_key"] ^ 0x1234)))
                    res.faults["F.prior_training_of_another_configuration"] += 1
                base = self.algo.learn(env, policy, total, key=key)
                jax.block_until_ready(base)
                tr.ev("baseline", digest=leaves_digest(base)[:16])
                try:
                    after = array_leaves(policy)
                except Exception as exc:  # noqa: BLE001  (e.g. buffers of the input policy donated / deleted by training)
                    res.fail("C11", "input_policy_untouched", "input_policy_buffers_unusable_after_learn", message=f"{type(exc).__name__}: {str(exc)[:160]}")
                    after = None
                if after is None:
                    pass
                elif len(before) != len(after) or any(x.tobytes() != y.tobytes() for x, y in zip(before, after)):
                    res.fail("C11", "input_policy_untouched", "input_policy_leaves_changed")
                else:
                    res.ok("C11", "input_policy_untouched")
                if all(x.tobytes() == y.tobytes() for x, y in zip(before, array_leaves(base))) and iters > 0:
                    res.probes["trained_policy_equals_input"] += 1
            elif op == "repeat" and base is not None:
                again = self.algo.learn(env, policy, total, key=key)
                if leaves_digest(again) != leaves_digest(base):
                    res.fail("C11", "repeat_bit_identical", "second_run_differs_in_same_process")
                else:
                    res.ok("C11", "repeat_bit_identical")
            elif op == "other_key" and base is not None and iters > 0:
                # "different keys yield different runs": judged only where coincidence has negligible probability —
                # continuous built-in environments (random initial state drawn from the key), >= 2 optimiser steps,
                # three alternative keys must not ALL reproduce the baseline bit for bit.  On small finite MDPs two keys
                # can legitimately produce the same trajectory and hence the same parameters (counted as a probe).
                same = 0
                alts = [plan["learn_key"] ^ 0x5A5A5A, plan["learn_key"] ^ 0x0F0F0F, (plan["learn_key"] + 1) & 0x7FFFFFFF]
                for k2 in alts:
                    other = self.algo.learn(env, policy, total, key=jr.key(k2))
                    if leaves_digest(other) == leaves_digest(base):
                        same += 1
                    else:
                        break
                if same == len(alts):
                    if cls["env"] in ("cartpole", "pendulum") and iters >= 2:
                        res.fail("C11", "key_matters", "different_keys_same_parameters", keys_tried=len(alts))
                    else:
                        res.probes["other_keys_coincide_on_small_mdp"] += 1
                else:
                    res.ok("C11", "key_matters")
            elif op == "observed" and base is not None and self.observer is not None:
                self._observed(res, props, plan, env, policy, total, key, base, iters)
            elif op == "spy_targets" and base is not None and cls["algo"] in ("DQN", "SAC") and iters >= 2 and "C10" in props:
                self._spy_targets(res, env, policy, total, key, iters)
            elif op == "fresh_process" and base is not None:
                d = self._fresh_process(plan)
                res.faults["F.fresh_process"] += 1
                if plan.get("hashseed") not in (None, "0"):
                    res.faults["F.hashseed"] += 1
                if plan.get("child_imports") == "all":
                    res.faults["F.whole_library_imported_first"] += 1
                tr.ev("fresh_process", digest=(d or "")[:16])
                if d is None:
                    raise RuntimeError("fresh-process child failed")
                if d != leaves_digest(base):
                    res.fail("C11", "fresh_process_bit_identical", "fresh_interpreter_differs", hashseed=plan.get("hashseed"), child_imports=plan.get("child_imports"))
                else:
                    res.ok("C11", "fresh_process_bit_identical")
            res.steps += iters * n * T
        return res

    def _spy_targets(self, res, env, policy, total, key, iters):
        """Target networks observed from inside `learn()`: the state each iteration starts from (C10, second and third sentence)."""
        from ..world.observers import TargetSpy

        sink: list = []
        if getattr(self, "_tspy", None) is None:
            self._tspy = TargetSpy(sink)
        spy = self._tspy
        spy.sink.clear()
        out = self.algo.learn(env, policy, total, key=key, callback=spy)
        jax.block_until_ready(out)
        jax.effects_barrier()
        recs = list(spy.sink)
        res.trace.ev("spy_targets", n=len(recs), counts=[r.get("count") for r in recs])
        if any(r.get("missing") for r in recs) or not recs:
            res.probes["algorithm_state_not_visible_to_callbacks"] += 1
            return
        # a record made in on_iteration shows the state AFTER the update of iteration c (count c, online theta_c) and BEFORE the
        # per-iteration target maintenance (target still T_{c-1}); the record of on_training_end shows the final state (theta_last, T_last)
        its = [r for r in recs if r["where"] == "iteration"]
        end = [r for r in recs if r["where"] == "end"]
        res.events["E.targets_observed_inside_learn"] += 1
        counts = [r["count"] for r in its]
        if counts not in (list(range(1, len(its) + 1)), list(range(0, len(its)))) or len(its) != iters or (end and end[-1]["count"] != len(its)):
            res.fail("C10", "iteration_counter", "counter_not_advanced_by_one_inside_learn", counts=counts, end=[r["count"] for r in end], expected_iterations=iters)
            return
        res.ok("C10", "iteration_counter")
        # Two readings of a record are legitimate (where in the iteration the callback is invoked is not part of the property):
        # (A) before the target maintenance of that iteration (target = T_{c-1}), (B) after it (target = T_c).  The property holds
        # iff ONE reading explains every record; the unchanged tree is (A).
        f64 = lambda x: x.astype(np.float64)  # noqa: E731
        if self.cls["algo"] == "SAC":
            tau = float(self.algo.tau)

            def polyak_ok(theta, old, new):
                want = tau * f64(theta) + (1.0 - tau) * f64(old)
                return float(np.max(np.abs(f64(new) - want))) <= 2e-6 * max(1.0, float(np.max(np.abs(want))))

            read_a = all(polyak_ok(a["online"], a["target"], b["target"]) for a, b in zip(its, its[1:])) and (not end or polyak_ok(its[-1]["online"], its[-1]["target"], end[-1]["target"]))
            read_b = all(polyak_ok(b["online"], a["target"], b["target"]) for a, b in zip(its, its[1:])) and (not end or np.array_equal(its[-1]["target"], end[-1]["target"]))
            if not (read_a or read_b):
                res.fail("C10", "sac_polyak_once", "not_one_polyak_step_per_iteration_of_learn", iterations=len(its), tau=tau)
            else:
                res.ok("C10", "sac_polyak_once", len(its))
        else:
            interval = int(self.algo.target_update_interval)
            online_at = {r["count"]: r["online"] for r in its}

            def frozen_ok(views):
                for c, target in views:  # target network in force after iteration c was completed (incl. its sync)
                    j = (c // interval) * interval
                    if j and not np.array_equal(target, online_at[j]):
                        return False
                return True

            tail = [(end[-1]["count"], end[-1]["target"])] if end else []
            read_a = frozen_ok([(r["count"] - 1, r["target"]) for r in its] + tail)
            read_b = frozen_ok([(r["count"], r["target"]) for r in its] + tail)
            if not (read_a or read_b):
                res.fail("C10", "dqn_target_frozen_between", "target_inside_learn_is_not_the_online_network_of_the_last_sync", iterations=len(its), interval=interval)
            else:
                res.ok("C10", "dqn_target_frozen_between", len(its))

    def _observed(self, res, props, plan, env, policy, total, key, base, iters):
        cls = self.cls
        n, T = cls["n"], cls["T"]
        tr = res.trace
        self.rec.clear()
        mode = "early"
        raise_at = None
        for f in plan["faults"]:
            if f["kind"] == "video_schedule":
                mode = f["mode"]
            if f["kind"] == "backend_raise":
                raise_at = f["at"]
        SCHED.reset(mode, raise_at)
        sink = io.StringIO()
        err = None
        out = None
        try:
            with contextlib.redirect_stdout(sink):
                out = self.algo.learn(env, policy, total, key=key, callback=self.observer)
                jax.block_until_ready(out)
                jax.effects_barrier()
        except Exception as exc:  # noqa: BLE001
            err = exc
        # stop progress-bar refresh threads; close-time scheduling of the video task
        for cb in (self.observer if isinstance(self.observer, list) else [self.observer]):
            if isinstance(cb, ProgressBarCallback):
                with contextlib.redirect_stdout(sink), contextlib.suppress(Exception):
                    cb.stop()
        if cls["observer"] == "video":
            self.observer._video_executor.shutdown(wait=True)
        for k, v in SCHED.fired.items():
            res.faults[k] += v
        calls = list(self.rec.calls)
        tr.ev("observed", observer=cls["observer"], raised=type(err).__name__ if err else None,
              calls=[(c["backend"], c["call"], c.get("step")) for c in calls])
        if err is not None:
            injected = raise_at is not None and SCHED.fired.get("F.backend_raise")
            if not injected:
                raise err
            res.probes["learn_raised_after_backend_fault"] += 1
            try:
                jax.effects_barrier()
            except Exception:  # noqa: BLE001
                pass
        # ---- C11: observers do not change the trained policy
        if out is not None and err is None:
            if leaves_digest(out) != leaves_digest(base):
                # An observer changes the compiled program, so XLA may re-associate floating-point sums; Adam can
                # turn a 1e-9 difference in a near-zero gradient into an O(lr) difference of that one parameter.
                # Noise of this kind touches few entries; a semantic influence (other random draws, state fed
                # back) moves most of them.  Judge the MEDIAN relative difference over all parameters.
                close = self._noise_close(array_leaves(out), array_leaves(base))
                if close:
                    res.probes["observer_equal_only_to_1e-6"] += 1
                    res.ok("C11", "observer_free_equal")
                else:
                    # A 1-ulp difference can flip one sampled action (probability ~1e-7 per draw) and the runs then
                    # diverge macroscopically without any semantic influence of the observer.  Such flips are
                    # independent across keys, a semantic influence is not: confirm with two further keys.
                    confirmed = 0
                    for k2 in (plan["learn_key"] ^ 0x33CC33, plan["learn_key"] ^ 0x1234567):
                        b2 = self.algo.learn(env, policy, total, key=jr.key(k2))
                        SCHED.reset(mode, None)
                        with contextlib.redirect_stdout(sink):
                            o2 = self.algo.learn(env, policy, total, key=jr.key(k2), callback=self.observer)
                            jax.block_until_ready(o2)
                            jax.effects_barrier()
                        if cls["observer"] == "video":
                            self.observer._video_executor.shutdown(wait=True)
                        if not self._noise_close(array_leaves(o2), array_leaves(b2)):
                            confirmed += 1
                    if confirmed == 2:
                        res.fail("C11", "observer_free_equal", f"observer_changes_trained_policy:{cls['observer']}", mode=mode)
                    else:
                        res.probes["observer_divergence_not_confirmed_on_other_keys"] += 1
            else:
                res.ok("C11", "observer_free_equal")
        # ---- C10 / C19: records
        for tag in sorted({c["backend"] for c in calls}):
            mine = [c for c in calls if c["backend"] == tag and c["call"] in ("log_hparams", "log_scalars", "log_video")]
            scal = [c for c in mine if c["call"] == "log_scalars"]
            if "C19" in props:
                if scal and mine and mine[0]["call"] != "log_hparams":
                    res.fail("C19", "records_in_order", "hparams_not_first", backend=tag)
                steps = [c["step"] for c in scal]
                if steps != sorted(steps) or len(set(steps)) != len(steps):
                    res.fail("C19", "records_in_order", "scalar_records_out_of_iteration_order", backend=tag, steps=steps)
                else:
                    res.ok("C19", "records_in_order")
            complete = err is None
            steps = [c["step"] for c in scal]
            # warm-up steps of an off-policy learner are environment steps too (C05: exactly learning_starts per environment)
            offs = {n * cls.get("starts", 0)}
            if complete and "C10" in props:
                if len(steps) != iters:
                    res.fail("C10", "num_iterations", "wrong_number_of_iterations", got=len(steps), expected=iters, total=total, n=n, T=T)
                else:
                    res.ok("C10", "num_iterations")
            if steps:
                off = steps[0] - n * T
                ok = off in offs and all(b - a == n * T for a, b in zip(steps, steps[1:]))
                if not ok:
                    for P, chk in (("C10", "steps_per_iteration"), ("C19", "cumulative_steps")):
                        if P in props:
                            res.fail(P, chk, "step_field_not_cumulative_environment_steps", backend=tag, steps=steps, n=n, T=T, accepted_offsets=sorted(offs))
                else:
                    res.ok("C10", "steps_per_iteration")
                    res.ok("C19", "cumulative_steps")
        if "C19" in props:
            tags = sorted({c["backend"] for c in calls if c["call"] == "log_scalars"})
            if len(tags) > 1:
                seqs = {t: [(c["step"], sorted(c["scalars"].items())) for c in calls if c["backend"] == t and c["call"] == "log_scalars"] for t in tags}
                ref = seqs[tags[0]]
                short = min(len(s) for s in seqs.values())
                if any(s[:short] != ref[:short] for s in seqs.values()):
                    res.fail("C19", "records_equal_across_backends", "backends_received_different_records")
                else:
                    res.ok("C19", "records_equal_across_backends")
            if cls["observer"] == "video" and err is None:
                # the same learn with the video task scheduled "early" must give the same scalar records
                mine = [(c["step"], sorted(c["scalars"].items())) for c in calls if c["call"] == "log_scalars"]
                vids = [c for c in calls if c["call"] == "log_video"]
                res.probes["video_records"] += len(vids)
                if mode != "early":
                    self.rec.clear()
                    SCHED.reset("early", None)
                    with contextlib.redirect_stdout(sink):
                        out2 = self.algo.learn(env, policy, total, key=key, callback=self.observer)
                        jax.block_until_ready(out2)
                        jax.effects_barrier()
                    self.observer._video_executor.shutdown(wait=True)
                    ref = [(c["step"], sorted(c["scalars"].items())) for c in self.rec.calls if c["call"] == "log_scalars"]
                    if ref != mine:
                        res.fail("C19", "video_does_not_disturb", f"scalar_records_depend_on_video_schedule:{mode}")
                    elif leaves_digest(out2) != leaves_digest(out):
                        res.fail("C11", "observer_free_equal", f"trained_policy_depends_on_video_schedule:{mode}")
                    else:
                        res.ok("C19", "video_does_not_disturb")

    @staticmethod
    def _noise_close(la, lb) -> bool:
        """Equal up to floating-point re-association noise (median relative difference <= 1e-6, at most a fifth
        of the entries off by more than 1e-4, identical integer leaves and inf/nan patterns)."""
        if len(la) != len(lb) or any(x.shape != y.shape for x, y in zip(la, lb)):
            return False
        parts = []
        for x, y in zip(la, lb):
            if x.dtype.kind != "f":
                if not np.array_equal(x, y):
                    return False
                continue
            x, y = x.astype(np.float64).ravel(), y.astype(np.float64).ravel()
            fin = np.isfinite(x) & np.isfinite(y)
            if not np.array_equal(np.where(fin, 0.0, x), np.where(fin, 0.0, y), equal_nan=True):
                return False
            parts.append(np.abs(x[fin] - y[fin]) / (np.abs(y[fin]) + 1e-3))
        rel = np.concatenate(parts) if parts and sum(p.size for p in parts) else np.zeros(1)
        return float(np.median(rel)) <= 1e-6 and float(np.mean(rel > 1e-4)) <= 0.2

    def _fresh_process(self, plan) -> str | None:
        env = dict(os.environ)
        hs = plan.get("hashseed", "0")
        if hs == "random":
            env.pop("PYTHONHASHSEED", None)
        else:
            env["PYTHONHASHSEED"] = hs
        env["PYTHONPATH"] = VERIF_ROOT + os.pathsep + env.get("PYTHONPATH", "")
        p = subprocess.run([sys.executable, "-m", "dsim.scenarios.train_child"], input=json.dumps(plan), capture_output=True, text=True, env=env, timeout=600, cwd=VERIF_ROOT)
        for line in p.stdout.splitlines():
            if line.startswith("DIGEST "):
                return line.split()[1]
        sys.stderr.write(p.stderr[-2000:])
        return None

    def __del__(self):
        try:
            if getattr(self, "tmp", None):
                shutil.rmtree(self.tmp, ignore_errors=True)
        except Exception:  # noqa: BLE001  (interpreter shutdown)
            pass
