"""S1 `protocol` — operation sequences on wrapper stacks over SimMDP.

Operations: `reset(key)`, `step(state, action, key)`, `func` (every functional component
called directly at the current state), `fresh` (256 resets, for "freshly drawn"), executed
jitted (default), eagerly or vmapped (exec-mode knob, C12).  Per-operation refinement
against RefMDP∘RefStack; history oracles for counters.

Serves C01 (step/reset contract), C13 (wrappers change only what they declare; TimeLimit
exact; construct; spaces; passthrough), C12 (eager = jit = vmap).
"""

from __future__ import annotations

import copy
import random
from functools import partial

import equinox as eqx
import jax
import numpy as np
from jax import numpy as jnp
from jax import random as jr

from lerax import wrapper as W
from lerax.space import Box, Discrete

from ..classes import protocol as classes  # noqa: F401
from ..kernel import RunResult, Trace
from ..ref.mdp import RefMDP, close
from ..ref.wrappers import T_OBS_SCALE, T_OBS_SHIFT, T_REW_SCALE, T_REW_SHIFT, RefStack
from ..world.mdp import OBS_BOUND, SimMDP, comps_of, dummy_tables, gen_tables, with_tables

NAME = "protocol"
PROPS = {"C01", "C12", "C13"}
DOCUMENTED = ["Identity", "TimeLimit", "ClipAction", "RescaleAction", "TransformAction", "ClipObservation", "RescaleObservation",
              "FlattenObservation", "TransformObservation", "ClipReward", "TransformReward"]


def _t_obs(o):
    return T_OBS_SCALE * o + T_OBS_SHIFT


def _t_rew(r):
    return T_REW_SCALE * r + T_REW_SHIFT


def _neg(a):
    return -a


def _cap_high(a):
    return jnp.minimum(a, 1.0)


def _cap_low(a):
    return jnp.maximum(a, -1.0)


def wrap_one(env, spec):
    name = spec[0]
    if name == "Identity":
        return W.Identity(env)
    if name == "TimeLimit":
        return W.TimeLimit(env, 3)
    if name == "ClipAction":
        return W.ClipAction(env)
    if name == "RescaleAction":
        return W.RescaleAction(env, jnp.array(float(spec[1])), jnp.array(float(spec[2])))
    if name == "TransformAction":
        sp = env.action_space
        if isinstance(sp, Box):
            return W.TransformAction(env, _neg, Box(-sp.high, -sp.low, shape=sp.shape))
        n = sp.n
        return W.TransformAction(env, lambda a: (a + 1) % n, Discrete(n), mask_func=lambda m: jnp.roll(m, -1))
    if name in ("HalfBoxHigh", "HalfBoxLow"):
        # documented TransformAction with a one-sided declared space: [low, inf) capped onto the inner box from above (or the mirror image)
        sp = env.action_space
        if name == "HalfBoxHigh":
            return W.TransformAction(env, _cap_high, Box(sp.low, jnp.full(sp.shape, jnp.inf), shape=sp.shape))
        return W.TransformAction(env, _cap_low, Box(jnp.full(sp.shape, -jnp.inf), sp.high, shape=sp.shape))
    if name == "ClipObservation":
        return W.ClipObservation(env)
    if name == "RescaleObservation":
        return W.RescaleObservation(env, jnp.array(float(spec[1])), jnp.array(float(spec[2])))
    if name == "FlattenObservation":
        return W.FlattenObservation(env)
    if name == "TransformObservation":
        sp = env.observation_space
        return W.TransformObservation(env, _t_obs, Box(_t_obs(sp.low), _t_obs(sp.high), shape=sp.shape))
    if name == "ClipReward":
        return W.ClipReward(env, float(spec[1]), float(spec[2]))
    if name == "TransformReward":
        return W.TransformReward(env, _t_rew)
    raise ValueError(name)


def build_stack(base, stack):
    env = base
    for spec in stack:
        env = wrap_one(env, spec)
    return env


def replace_base(env, new_base):
    if not hasattr(env, "env"):
        return new_base
    return eqx.tree_at(lambda w: w.env, env, replace_base(env.env, new_base))


def set_limits(env, limits: list[int]):
    """Set max_episode_steps of every TimeLimit in the stack (outermost first)."""
    limits = list(limits)

    def rec(e):
        if not hasattr(e, "env"):
            return e
        if isinstance(e, W.TimeLimit):
            n = limits.pop(0)
            e = eqx.tree_at(lambda w: w.max_episode_steps, e, jnp.array(n, dtype=int))
        return eqx.tree_at(lambda w: w.env, e, rec(e.env))

    return rec(env)


def read_state(state) -> dict:
    """Innermost (s, t) and TimeLimit counters (outermost first) of a lerax state (host)."""
    tl = []
    st = state
    while hasattr(st, "env_state"):
        if hasattr(st, "step_count"):
            tl.append(int(st.step_count))
        st = st.env_state
    return {"s": int(st.s), "t": int(st.t), "tl": tl}


def same_space(a, b) -> bool:
    """Structural equality of two lerax spaces, without relying on their own __eq__."""
    if type(a) is not type(b):
        return False
    if hasattr(a, "spaces"):
        sa, sb = a.spaces, b.spaces
        if isinstance(sa, dict):
            return list(sa) == list(sb) and all(same_space(sa[k], sb[k]) for k in sa)
        return len(sa) == len(sb) and all(same_space(x, y) for x, y in zip(sa, sb))
    la, lb = jax.tree.leaves(a), jax.tree.leaves(b)
    if tuple(getattr(a, "shape", ()) or ()) != tuple(getattr(b, "shape", ()) or ()) or len(la) != len(lb):
        return False
    for x, y in zip(la, lb):
        x, y = np.asarray(x), np.asarray(y)
        if x.shape != y.shape or not np.array_equal(x, y):
            return False
    for attr in ("n", "nvec", "ns"):
        if hasattr(a, attr) and not np.array_equal(np.asarray(getattr(a, attr)), np.asarray(getattr(b, attr))):
            return False
    return True


class Runner:
    def __init__(self, cls: dict):
        self.cls = cls
        self.kind = cls["kind"]
        self.comps = comps_of(self.kind, tuple(cls["dims"]))
        self.NS = cls["S"] + 1
        self.D = cls.get("D", 3)
        tables = dummy_tables(cls["S"], self.kind, tuple(cls["dims"]), D=self.D, masked=cls["masked"])
        self.base0 = SimMDP(self.kind, tuple(cls["dims"]), cls["obs_kind"], tables)
        self.build_error = None
        self.env0 = None
        try:
            self.env0 = build_stack(self.base0, cls["stack"])
        except Exception as exc:  # noqa: BLE001  (reported as a `construct` verdict by execute)
            failing = None
            env = self.base0
            for spec in cls["stack"]:
                try:
                    env = wrap_one(env, spec)
                except Exception:  # noqa: BLE001
                    failing = spec[0]
                    break
            self.build_error = (failing or "?", f"{type(exc).__name__}: {str(exc)[:160]}")
        self.ref_stack = RefStack(cls["stack"], self.kind, self.comps, cls["obs_kind"], self.D)
        self.n_tl = sum(1 for s in cls["stack"] if s[0] == "TimeLimit")
        self._func = eqx.filter_jit(self._func_all)
        self._fresh = eqx.filter_jit(lambda env, keys: jax.vmap(lambda k: env.reset(key=k)[0].unwrapped.s)(keys))
        self._vstep = eqx.filter_jit(lambda env, st, a, ks: eqx.filter_vmap(lambda s, x, k: env.step(s, x, key=k))(st, a, ks))

    @staticmethod
    def _func_all(env, state, action, key):
        k1, k2, k3, k4, k5 = jr.split(key, 5)
        nxt = env.transition(state, action, key=k1)
        return {
            "next": nxt,
            "reward": env.reward(state, action, nxt, key=k2),
            "terminal": env.terminal(nxt, key=k3),
            "truncate": env.truncate(nxt),
            "obs": env.observation(state, key=k4),
            "next_obs": env.observation(nxt, key=k4),
            "mask": env.action_mask(state, key=k5),
            "tinfo": env.transition_info(state, action, nxt),
            "sinfo": env.state_info(state),
        }

    # ------------------------------------------------------------------ plans

    def gen(self, rng, prop: str) -> dict:
        cls = self.cls
        mode = rng.choice(["plain", "term_heavy", "trunc_heavy", "both_heavy", "quiet"])
        bias = {"plain": {}, "term_heavy": {"p_term": 0.5, "p_trunc": 0.0}, "trunc_heavy": {"p_term": 0.0, "p_trunc": 0.3},
                "both_heavy": {"p_term": 0.4, "p_trunc": 0.4}, "quiet": {"p_term": 0.0, "p_trunc": 0.0}}[mode]
        tables = gen_tables(rng, S=cls["S"], kind=self.kind, dims=tuple(cls["dims"]), D=self.D, masked=cls["masked"], bias=bias)
        if mode == "both_heavy":
            for s in range(cls["S"]):
                if tables["term"][s] and rng.random() < 0.5:
                    tables["trunc"][s] = True
        n_ops = rng.randint(5, 60)
        ops = [{"op": "reset", "key": rng.getrandbits(31)}]
        for _ in range(n_ops):
            u = rng.random()
            if u < 0.06:
                ops.append({"op": "reset", "key": rng.getrandbits(31)})
            elif u < 0.2:
                ops.append({"op": "func", "key": rng.getrandbits(31), "intent": rng.getrandbits(16), "amode": self._amode(rng)})
            else:
                ops.append({"op": "step", "key": rng.getrandbits(31), "intent": rng.getrandbits(16), "amode": self._amode(rng)})
        if rng.random() < 0.3:
            ops.append({"op": "fresh", "key": rng.getrandbits(31)})
        if rng.random() < 0.5:
            ops.insert(1, {"op": "static"})
        exec_mode = "jit"
        if prop == "C12":
            exec_mode = rng.choice(["eager", "vmap", "vmap", "jit"])
            if exec_mode == "eager":
                ops = ops[:12]
        return {
            "scenario": NAME, "cls": cls, "mode": mode,
            "knobs": {"limits": [rng.choice([1, 2, 3, 4, 6]) for _ in range(self.n_tl)], "exec_mode": exec_mode},
            "world": tables, "ops": ops, "faults": [],
        }

    def _amode(self, rng) -> str:
        if self.kind in ("box", "boxscalar"):
            return rng.choice(["center", "center", "corner_low", "corner_high", "mixed_corner", "oob"])
        return "legal"

    def shrink_candidates(self, plan: dict):
        S = self.cls["S"]

        def variant(fn):
            p = copy.deepcopy(plan)
            fn(p)
            return p if p != plan else None

        ops = plan["ops"]
        # drop the tail, then single operations (keeping the first reset)
        if len(ops) > 2:
            yield {**copy.deepcopy(plan), "ops": copy.deepcopy(ops[: max(2, len(ops) // 2)])}
            yield {**copy.deepcopy(plan), "ops": copy.deepcopy(ops[:-1])}
            for i in range(1, min(len(ops), 40)):
                yield {**copy.deepcopy(plan), "ops": copy.deepcopy(ops[:i] + ops[i + 1 :])}
        cands = [
            lambda p: p["knobs"].__setitem__("limits", [1000] * len(p["knobs"]["limits"])),
            lambda p: p["knobs"].__setitem__("exec_mode", "jit"),
            lambda p: p["world"].__setitem__("term", [False] * (S + 1)),
            lambda p: p["world"].__setitem__("trunc", [False] * (S + 1)),
            lambda p: p["world"].__setitem__("rew_w", [0.0] * (S + 1)),
            lambda p: p["world"].__setitem__("init", [p["world"]["init"][0]] * len(p["world"]["init"])),
        ]

        def determinise(p):
            for row in p["world"]["succ"]:
                for br in row:
                    br[1] = br[0]
            p["world"]["p_branch"] = 0.0

        cands.append(determinise)
        if plan["world"].get("mask") is not None:
            cands.append(lambda p: p["world"].__setitem__("mask", [[True] * len(r) for r in p["world"]["mask"]]))
        for fn in cands:
            v = variant(fn)
            if v is not None:
                yield v

    # ------------------------------------------------------------------ actions

    def _outer_action(self, op, mdp: RefMDP, s: int):
        """Concrete outer action for an op at inner state ``s`` (deterministic in the plan)."""
        rs = self.ref_stack
        intent = op["intent"]
        if self.kind in ("box", "boxscalar"):
            lo, hi = rs.outer_action_bounds()
            d = len(self.comps) if self.kind == "box" else 1
            amode = op["amode"]
            vals = []
            for j in range(d):
                bits = (intent >> (3 * j)) & 7
                if not np.isfinite(lo):  # a ClipAction makes the outer action space unbounded: use the bounds below it
                    clip_level = max(i for i, sp in enumerate(rs.stack) if sp[0] == "ClipAction")
                    ilo, ihi = rs.action_bounds_below(clip_level)
                    if np.isfinite(ilo) and np.isfinite(ihi):
                        grid = [ilo - 3.0, ilo, ilo + (ihi - ilo) * 0.25 + 1e-3, (ilo + ihi) / 2 + 1e-3, ihi, ihi + 2.5, ihi + 100.0, ilo - 0.5]
                    elif np.isfinite(ilo):   # one-sided box [ilo, inf): only the lower side can be violated
                        grid = [ilo - 3.0, ilo, ilo + 0.5 + 1e-3, ilo + 1.0 + 1e-3, ilo + 2.0, ilo + 4.5, 1e30, ilo - 0.5]
                    else:                    # (-inf, ihi]
                        grid = [ihi + 3.0, ihi, ihi - 0.5 - 1e-3, ihi - 1.0 - 1e-3, ihi - 2.0, ihi - 4.5, -1e30, ihi + 0.5]
                    vals.append(grid[bits])
                    continue
                nb = self.comps[j] if self.kind == "box" else self.comps[0]
                centre = lo + (hi - lo) * ((bits % nb) + 0.5) / nb
                if amode == "center":
                    vals.append(centre)
                elif amode == "corner_low":
                    vals.append(lo)
                elif amode == "corner_high":
                    vals.append(hi)
                elif amode == "mixed_corner":
                    vals.append(lo if bits & 1 else hi)
                else:  # "oob" only makes sense under ClipAction; otherwise stay in space
                    vals.append(centre)
            a = np.asarray(vals, dtype=np.float32)
            return a if self.kind == "box" else a[0]
        # discrete kinds: pick among actions the (outer) mask allows
        inner_mask = None if mdp.mask is None else mdp.mask[s]
        if self.kind == "discrete":
            n = self.comps[0]
            outer_mask = rs.map_mask(inner_mask)
            allowed = [a for a in range(n) if outer_mask is None or outer_mask[a]]
            return np.asarray(allowed[intent % len(allowed)], dtype=np.int32)
        if self.kind == "multidiscrete":
            out, off = [], 0
            for j, nj in enumerate(self.comps):
                al = [a for a in range(nj) if inner_mask is None or inner_mask[off + a]]
                out.append(al[(intent >> (4 * j)) % len(al)])
                off += nj
            return np.asarray(out, dtype=np.int32)
        out = []
        for j in range(len(self.comps)):
            bit = (intent >> j) & 1
            if inner_mask is not None and not inner_mask[j]:
                bit = 0
            out.append(bool(bit))
        return np.asarray(out, dtype=bool)

    # ------------------------------------------------------------------ execution

    def execute(self, plan: dict, props: set | None = None) -> RunResult:
        props = set(props or PROPS)
        res = RunResult(Trace())
        tr = res.trace
        cls = self.cls
        if self.build_error is not None:
            wname, msg = self.build_error
            for P in ("C13", "C01"):
                if P in props:
                    res.fail(P, "construct" if P == "C13" else "crash", f"wrapper={wname}", message=msg, stack=cls["stack"])
            tr.ev("construct_failed", wrapper=wname)
            return res
        rs = self.ref_stack
        base = with_tables(self.base0, plan["world"])
        env = set_limits(replace_base(self.env0, base), plan["knobs"]["limits"])
        # TimeLimit levels: limits are listed outermost first
        tl_levels = rs.time_limit_levels()[::-1]
        limits = list(plan["knobs"]["limits"])
        mdp = RefMDP(self.kind, self.comps, plan["world"])
        exec_mode = plan["knobs"].get("exec_mode", "jit")
        if "C12" in props and exec_mode != "jit":
            # the stack exactly AS CONSTRUCTED (no pytree surgery yet): eager call vs the same object passed through a jit boundary,
            # which re-builds its pytree (static structure such as the order of a Dict space's entries must survive that)
            fn = lambda e, k: (lambda st: (st, e.observation(st, key=k), e.action_mask(st, key=k)))(e.initial(key=k))  # noqa: E731
            if getattr(self, "_jfun", None) is None:
                self._jfun = eqx.filter_jit(fn)
            k_ab = jr.key(int(plan["ops"][0].get("key", 0)) if plan["ops"] else 0)
            with jax.disable_jit():
                eager_out = fn(self.env0, k_ab)  # functional API: no library-side jit wrapper in between
            self._mode_equal(res, "as_built_eager_vs_jit", jax.device_get(eager_out), jax.device_get(self._jfun(self.env0, k_ab)))
            res.probes["mode_as_built_ops"] += 1
        state = None
        hist: list = []  # earlier (state, action, key) inputs of this run, for heterogeneous vmap batches
        cur = None  # host view of the current state
        E = res.events

        def expected_obs_ok(obs, s):
            want = rs.map_obs(mdp.obs_row(s))
            got = jax.device_get(obs)
            if want is None:
                return int(np.asarray(got)) == s
            if isinstance(want, list):
                parts = list(got.values()) if isinstance(got, dict) else list(got)
                return all(np.allclose(np.asarray(g, dtype=np.float64), w, rtol=1e-5, atol=1e-5) for g, w in zip(parts, want))
            return np.asarray(got).shape == want.shape and np.allclose(np.asarray(got, dtype=np.float64), want, rtol=1e-5, atol=1e-5)

        for oi, op in enumerate(plan["ops"]):
            kind = op["op"]
            if kind == "static":
                self._static_checks(res, props, env)
                tr.ev("op", op="static")
                continue
            if kind == "reset":
                state, obs, info = env.reset(key=jr.key(op["key"]))
                cur = read_state(jax.device_get(state))
                tr.ev("op", op="reset", s=cur["s"])
                ok = cur["s"] in mdp.init and cur["t"] == 0 and all(c == 0 for c in cur["tl"])
                if not ok:
                    for P in ("C01",):
                        if P in props:
                            res.fail(P, "reset_initial", "reset_state_not_fresh", state=cur, init=sorted(mdp.init))
                else:
                    res.ok("C01", "reset_initial")
                if not expected_obs_ok(obs, cur["s"]):
                    if "C01" in props:
                        res.fail("C01", "reset_obs_of_state", "observation_not_of_returned_state", state=cur)
                    if "C13" in props:
                        res.fail("C13", "obs_only", "reset_observation_mismatch", state=cur)
                else:
                    res.ok("C01", "reset_obs_of_state")
                self._space_check(res, props, env, obs)
                continue
            if kind == "fresh":
                keys = jr.split(jr.key(op["key"]), 256)
                ss = np.asarray(self._fresh(env, keys))
                distinct = set(int(x) for x in ss)
                tr.ev("op", op="fresh", distinct=sorted(distinct))
                if not distinct <= mdp.init:
                    if "C01" in props:
                        res.fail("C01", "reset_initial", "reset_state_not_initial", got=sorted(distinct))
                elif len(mdp.init) >= 2 and len(distinct) < 2:
                    if "C01" in props:
                        res.fail("C01", "fresh_draw", "256_resets_one_state", got=sorted(distinct), init=sorted(mdp.init))
                else:
                    res.ok("C01", "fresh_draw")
                continue
            if state is None:
                continue
            a = self._outer_action(op, mdp, cur["s"])
            key = jr.key(op["key"])
            inner_a = rs.map_action(a)
            if self.kind in ("box", "boxscalar"):
                e32 = np.asarray(inner_a, dtype=np.float32)
                if not mdp.in_bounds(e32):
                    # float rounding of an in-space action must not leave the inner bounds:
                    # only explicit out-of-space requests (ClipAction outermost) may be clipped
                    E["inner_action_oob"] += 1
                if np.any(e32 == mdp.low) or np.any(e32 == mdp.high):
                    E["E.bound_corner"] += 1
            else:
                e32 = inner_a
            cands = mdp.successors(cur["s"], e32)
            # expected time-limit truncation from the INPUT counters
            tl_in = cur["tl"]
            if kind == "func":
                out = jax.device_get(self._func(env, state, jnp.asarray(a), key))
                nxt = read_state(out["next"])
                tr.ev("op", op="func", s=cur["s"], a=np.asarray(a).tolist(), s2=nxt["s"])
                self._check_transition(res, props, mdp, rs, cur, nxt, a, e32, cands, float(out["reward"]), bool(out["terminal"]), bool(out["truncate"]), limits, via="functional")
                if not expected_obs_ok(out["obs"], cur["s"]) or not expected_obs_ok(out["next_obs"], nxt["s"]):
                    if "C13" in props:
                        res.fail("C13", "obs_only", "functional_observation_mismatch", s=cur["s"], s2=nxt["s"])
                else:
                    res.ok("C13", "obs_only")
                want_mask = rs.map_mask(None if mdp.mask is None else mdp.mask[cur["s"]])
                got_mask = out["mask"]
                if (want_mask is None) != (got_mask is None) or (want_mask is not None and not np.array_equal(np.asarray(got_mask, dtype=bool), want_mask)):
                    if "C13" in props:
                        res.fail("C13", "passthrough", "action_mask_mismatch", s=cur["s"])
                else:
                    res.ok("C13", "passthrough")
                self._check_info(res, props, mdp, out["tinfo"], cur["s"], nxt["s"], e32, a, via="functional")
                if out["sinfo"] != {}:
                    if "C13" in props:
                        res.fail("C13", "passthrough", "state_info_not_passed_through")
                continue
            # ---- step
            if exec_mode == "eager":
                with jax.disable_jit():
                    outs = env.step(state, jnp.asarray(a), key=key)
                res.probes["mode_eager_ops"] += 1
            elif exec_mode == "vmap":
                # heterogeneous batch: the current input plus the two most recent earlier inputs of this run (other episode
                # ages, other actions, other keys), so that one element can end its episode while another does not
                batch = [(state, jnp.asarray(a), key)] + hist[-2:]
                while len(batch) < 3:
                    batch.append(batch[0])
                st_b = jax.tree.map(lambda *xs: jnp.stack(xs), *[b[0] for b in batch])
                a_b = jnp.stack([b[1] for b in batch])
                outs_b = self._vstep(env, st_b, a_b, jnp.stack([b[2] for b in batch]))
                outs = jax.tree.map(lambda x: x[0], outs_b)
                res.probes["mode_vmap_ops"] += 1
                if "C12" in props:
                    dones = []
                    for j in range(1, 3):
                        single = jax.device_get(env.step(batch[j][0], batch[j][1], key=batch[j][2]))
                        self._mode_equal(res, "vmap_batch_element", jax.device_get(jax.tree.map(lambda x, _j=j: x[_j], outs_b)), single)
                        dones.append(bool(single[3]) or bool(single[4]))
                    d0 = jax.device_get(outs)
                    dones.append(bool(d0[3]) or bool(d0[4]))
                    if any(dones) and not all(dones):
                        res.events["E.vmap_batch_mixed_episode_ends"] += 1
            else:
                outs = env.step(state, jnp.asarray(a), key=key)
            new_state, obs, reward, terminal, truncated, info = outs
            if exec_mode != "jit" and "C12" in props:
                ref_outs = env.step(state, jnp.asarray(a), key=key)
                self._mode_equal(res, exec_mode, jax.device_get(outs), jax.device_get(ref_outs))
            nxt = read_state(jax.device_get(new_state))
            reward, terminal, truncated = float(reward), bool(terminal), bool(truncated)
            tr.ev("op", op="step", s=cur["s"], a=np.asarray(a).tolist(), r=reward, term=terminal, trunc=truncated, s_ret=nxt["s"])
            self._check_step(res, props, mdp, rs, cur, nxt, a, e32, cands, reward, terminal, truncated, limits)
            self._check_info(res, props, mdp, jax.device_get(info), cur["s"], None, e32, a, via="step")
            if not expected_obs_ok(obs, nxt["s"]):
                if "C01" in props:
                    res.fail("C01", "step_obs_of_returned_state", "observation_not_of_returned_state", s_ret=nxt["s"], done=terminal or truncated)
                if "C13" in props:
                    res.fail("C13", "obs_only", "step_observation_mismatch", s_ret=nxt["s"])
            else:
                res.ok("C01", "step_obs_of_returned_state")
            self._space_check(res, props, env, obs)
            hist.append((state, jnp.asarray(a), key))
            state, cur = new_state, nxt
            res.steps += 1
        return res

    # ------------------------------------------------------------------ oracles

    def _expected(self, mdp, rs, cur, e32, s2, limits):
        """Reference flags/reward of moving to s2 from the input state `cur`."""
        term = bool(mdp.term[s2])
        trunc = bool(mdp.trunc[s2])
        tl_hit = False
        for c, n in zip(cur["tl"], limits):
            if c + 1 >= n:
                tl_hit = True
        r = rs.map_reward(mdp.reward(cur["s"], e32, s2))
        return term, trunc or tl_hit, tl_hit, r

    def _check_transition(self, res, props, mdp, rs, cur, nxt, a, e32, cands, reward, terminal, truncate, limits, via):
        E = res.events
        P13 = "C13" in props
        if nxt["s"] not in cands:
            if P13:
                unmapped = None
                try:
                    unmapped = mdp.successors(cur["s"], np.asarray(a, dtype=np.float32) if self.kind in ("box", "boxscalar") else a)
                except Exception:  # noqa: BLE001
                    pass
                cause = "transition_with_unmapped_action" if unmapped and nxt["s"] in unmapped else ("poison_reached" if nxt["s"] == mdp.poison else "successor_not_legal")
                res.fail("C13", "action_mapped_everywhere", cause, via=via, s=cur["s"], action=np.asarray(a).tolist(), inner_action=np.asarray(e32).tolist(), got=nxt["s"], legal=cands)
            return
        term, trunc, tl_hit, r = self._expected(mdp, rs, cur, e32, nxt["s"], limits)
        if nxt["t"] != cur["t"] + 1 or nxt["tl"] != [c + 1 for c in cur["tl"]]:
            if P13:
                res.fail("C13", "timelimit_exact", "counter_not_advanced_by_one", via=via, before=cur, after=nxt)
        if not close(reward, r, rel=2e-5):
            if P13:
                cause = "reward_mismatch"
                if self.kind in ("box", "boxscalar"):
                    r_un = rs.map_reward(float(mdp.rew[cur["s"], mdp.decode(e32)[0], nxt["s"]]) + float(mdp.rew_w[cur["s"]]) * float(np.sum(np.asarray(a, dtype=np.float64))))
                    if close(reward, r_un, rel=2e-5) or close(reward, rs.map_reward(-64.0)):
                        cause = "reward_with_unmapped_action"
                if close(reward, mdp.reward(cur["s"], e32, nxt["s"]), rel=2e-5):
                    cause = "reward_not_transformed"
                res.fail("C13", "reward_only" if cause != "reward_with_unmapped_action" else "action_mapped_everywhere", cause, via=via, s=cur["s"], s2=nxt["s"], got=reward, expected=r)
        else:
            res.ok("C13", "reward_only")
            res.ok("C13", "action_mapped_everywhere")
        if terminal != term:
            if P13:
                res.fail("C13", "passthrough", "terminal_mismatch", via=via, s2=nxt["s"], got=terminal)
        if truncate != trunc:
            if P13:
                inner_tr = bool(mdp.trunc[nxt["s"]])
                res.fail("C13", "timelimit_exact", "truncation_early" if truncate and not trunc else "truncation_late_or_missing", via=via, counters=cur["tl"], limits=limits, inner_truncate=inner_tr, got=truncate)
        else:
            res.ok("C13", "timelimit_exact")
            if tl_hit:
                E["E.trunc_tl"] += 1

    def _check_step(self, res, props, mdp, rs, cur, nxt, a, e32, cands, reward, terminal, truncated, limits):
        E = res.events
        P01, P13 = "C01" in props, "C13" in props
        done = terminal or truncated
        good = []
        for s2 in cands:
            term, trunc, tl_hit, r = self._expected(mdp, rs, cur, e32, s2, limits)
            if term != terminal or trunc != truncated:
                continue
            if not close(reward, r, rel=2e-5):
                continue
            if not done and nxt["s"] != s2:
                continue
            good.append((s2, term, trunc, tl_hit))
        if good:
            s2, term, trunc, tl_hit = good[0]
            res.ok("C01", "step_reward")
            res.ok("C01", "step_flags")
            res.ok("C13", "timelimit_exact")
            if term and trunc:
                E["E.both"] += 1
            elif term:
                E["E.term"] += 1
            elif trunc:
                E["E.trunc_tl" if tl_hit else "E.trunc_env"] += 1
            if done and cur["t"] == 0:
                E["E.done_first_step"] += 1
        else:
            # diagnose against the first candidate consistent with the returned successor
            pick = [s2 for s2 in cands if (done or s2 == nxt["s"])] or cands
            s2 = pick[0]
            term, trunc, tl_hit, r = self._expected(mdp, rs, cur, e32, s2, limits)
            detail = dict(s=cur["s"], action=np.asarray(a).tolist(), inner_action=np.asarray(e32).tolist(), counters=cur["tl"], limits=limits,
                          got=dict(reward=reward, terminal=terminal, truncated=truncated, s_ret=nxt["s"]), expected=dict(s2=cands, reward=r, terminal=term, truncated=trunc))
            if not done and nxt["s"] not in cands:
                if P01:
                    res.fail("C01", "step_state_successor", "returned_state_not_a_successor", **detail)
                if P13:
                    res.fail("C13", "action_mapped_everywhere", "poison_reached" if nxt["s"] == mdp.poison else "successor_not_legal", **detail)
            elif terminal != term or truncated != trunc:
                if P01:
                    res.fail("C01", "step_flags", "flags_mismatch", **detail)
                if P13 and truncated != trunc:
                    res.fail("C13", "timelimit_exact", "truncation_early" if truncated and not trunc else "truncation_late_or_missing", **detail)
            else:
                if P01:
                    res.fail("C01", "step_reward", "reward_mismatch", **detail)
                if P13:
                    res.fail("C13", "reward_only", "step_reward_mismatch", **detail)
        # returned state: fresh on done, successor otherwise
        if done:
            fresh = nxt["s"] in mdp.init and nxt["t"] == 0 and all(c == 0 for c in nxt["tl"])
            if not fresh:
                if P01:
                    cause = "counters_not_restarted" if nxt["s"] in mdp.init and nxt["t"] == 0 else ("state_not_initial" if nxt["s"] not in mdp.init else "episode_clock_not_zero")
                    res.fail("C01", "counters_restarted" if cause == "counters_not_restarted" else "step_state_fresh_on_done", cause, returned=nxt, terminal=terminal, truncated=truncated)
                if P13 and nxt["s"] in mdp.init and not all(c == 0 for c in nxt["tl"]):
                    res.fail("C13", "timelimit_restart", "counter_not_restarted_on_auto_reset", returned=nxt)
            else:
                res.ok("C01", "step_state_fresh_on_done")
                res.ok("C01", "counters_restarted")
                res.ok("C13", "timelimit_restart")
        else:
            okc = nxt["t"] == cur["t"] + 1 and nxt["tl"] == [c + 1 for c in cur["tl"]]
            if not okc:
                if P01:
                    res.fail("C01", "step_state_successor", "clocks_not_advanced", before=cur, after=nxt)
            elif nxt["s"] in cands:
                res.ok("C01", "step_state_successor")

    def _check_info(self, res, props, mdp, info, s, s2, e32, a, via):
        """transition_info of the wrapped environment is the inner environment's info for the MAPPED action."""
        if "C13" not in props:
            return
        if not isinstance(info, dict) or set(info) != {"action_echo", "from", "to"}:
            res.fail("C13", "passthrough", "transition_info_not_passed_through", via=via, got=str(info)[:120])
            return
        if self.kind in ("box", "boxscalar"):
            want = float(np.sum(np.asarray(e32, dtype=np.float64)))
            unm = float(np.sum(np.asarray(a, dtype=np.float64)))
        else:
            want = float(mdp.decode(e32)[0])
            unm = float(mdp.decode(a)[0]) if np.asarray(a).shape == np.asarray(e32).shape else None
        got = float(info["action_echo"])
        if abs(got - want) > 1e-4 * max(1.0, abs(want)) or int(info["from"]) != s or (s2 is not None and int(info["to"]) != s2):
            cause = "info_with_unmapped_action" if unm is not None and abs(got - unm) <= 1e-4 * max(1.0, abs(unm)) and abs(unm - want) > 1e-4 else "transition_info_mismatch"
            res.fail("C13", "action_mapped_everywhere", cause, via=via, got=got, expected=want)
        else:
            res.ok("C13", "action_mapped_everywhere")

    def _space_check(self, res, props, env, obs):
        if "C13" not in props:
            return
        try:
            inside = bool(env.observation_space.contains(obs))
        except Exception as exc:  # noqa: BLE001
            res.fail("C13", "space_advertised", "contains_raised", message=str(exc)[:200])
            return
        if not inside:
            res.fail("C13", "space_advertised", "observation_outside_advertised_space", obs=jax.tree.map(lambda x: np.asarray(x).tolist(), jax.device_get(obs)))
        else:
            res.ok("C13", "space_advertised")

    def _static_checks(self, res, props, env):
        """Spaces, name, unwrapped, and construction of every documented wrapper."""
        if "C13" not in props:
            return
        rs = self.ref_stack
        base = env
        while hasattr(base, "env"):
            base = base.env
        if env.unwrapped is not base or not isinstance(env.unwrapped, SimMDP):
            res.fail("C13", "unwrapped", "unwrapped_not_innermost_environment", got=type(env.unwrapped).__name__)
        else:
            res.ok("C13", "unwrapped")
        if env.name != "SimMDP":
            res.fail("C13", "passthrough", "name_not_passed_through", got=env.name)
        if self.kind in ("box", "boxscalar"):
            lo, hi = rs.outer_action_bounds()
            sp = env.action_space
            if not (isinstance(sp, Box) and np.allclose(np.asarray(sp.low), lo if np.isfinite(lo) else -np.inf) and np.allclose(np.asarray(sp.high), hi if np.isfinite(hi) else np.inf)):
                # TransformAction negates the bounds: symmetric bounds only in generated stacks
                if not any(s[0] == "TransformAction" for s in self.cls["stack"]):
                    res.fail("C13", "space_advertised", "action_space_bounds", got=[np.asarray(sp.low).tolist(), np.asarray(sp.high).tolist()], expected=[lo, hi])
            else:
                res.ok("C13", "space_advertised")
        # a wrapper that does not declare a change of a space advertises exactly the space of what it wraps — level by level
        lvl = env
        while hasattr(lvl, "env"):
            inner, wname = lvl.env, type(lvl).__name__
            for what, changers in (("observation_space", ("ClipObservation", "RescaleObservation", "FlattenObservation", "TransformObservation")),
                                   ("action_space", ("ClipAction", "RescaleAction", "TransformAction"))):
                if wname in changers:
                    continue
                try:
                    same = same_space(getattr(lvl, what), getattr(inner, what))
                except Exception as exc:  # noqa: BLE001
                    res.fail("C13", "space_advertised", f"{what}_raised", wrapper=wname, message=f"{type(exc).__name__}: {str(exc)[:160]}")
                    continue
                if not same:
                    res.fail("C13", "space_advertised", f"pass_through_wrapper_changes_{what}", wrapper=wname, got=str(getattr(lvl, what))[:160], inner=str(getattr(inner, what))[:160])
                else:
                    res.ok("C13", "space_advertised")
            lvl = inner
        # every documented wrapper can be constructed with documented arguments
        for name in DOCUMENTED:
            spec = {"RescaleAction": [name, -2.0, 2.0], "RescaleObservation": [name, 0.0, 1.0], "ClipReward": [name, -1.0, 1.0]}.get(name, [name])
            target = self.base0
            if name in ("ClipAction", "RescaleAction") and self.kind not in ("box", "boxscalar"):
                continue
            if name in ("ClipObservation", "RescaleObservation", "TransformObservation") and self.cls["obs_kind"] != "box":
                continue
            if name == "TransformAction" and self.kind not in ("box", "boxscalar", "discrete"):
                continue
            try:
                wrap_one(target, spec)
                res.ok("C13", "construct")
            except Exception as exc:  # noqa: BLE001
                res.fail("C13", "construct", f"wrapper={name}", message=f"{type(exc).__name__}: {str(exc)[:200]}")

    def _mode_equal(self, res, mode, a, b):
        la, lb = jax.tree.leaves(a), jax.tree.leaves(b)
        if len(la) != len(lb):
            res.fail("C12", "mode_equal", f"{mode}_structure_differs")
            return
        for x, y in zip(la, lb):
            x, y = np.asarray(x), np.asarray(y)
            if x.shape != y.shape or x.dtype != y.dtype:
                res.fail("C12", "mode_equal", f"{mode}_shape_or_dtype_differs", got=[str(x.dtype), list(x.shape)], expected=[str(y.dtype), list(y.shape)])
                return
            same = np.allclose(x, y, rtol=1e-6, atol=1e-6) if x.dtype.kind == "f" else np.array_equal(x, y)
            if not same:
                res.fail("C12", "mode_equal", f"{mode}_value_differs", got=x.tolist(), expected=y.tolist())
                return
        res.ok("C12", "mode_equal")
