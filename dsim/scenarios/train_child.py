"""Child of the `train` scenario: re-run the baseline `learn` of a plan (read from stdin) in a
fresh interpreter and print the digest of the trained leaves."""

from __future__ import annotations

import json
import sys


def main() -> int:
    plan = json.loads(sys.stdin.read())
    from dsim import driver

    driver._worker_init()
    if plan.get("child_imports") == "all":
        # a user who touched other parts of the library first: importing a module must not change what training computes
        import importlib
        import pkgutil

        import lerax

        for m in pkgutil.walk_packages(lerax.__path__, "lerax."):
            try:
                importlib.import_module(m.name)
            except Exception:  # noqa: BLE001  (optional dependencies)
                pass
    from dsim.scenarios.train import Runner, leaves_digest

    r = Runner({**plan["cls"], "observer": "none"})
    _, _, out = r.baseline(plan)
    print("DIGEST", leaves_digest(out))
    return 0


if __name__ == "__main__":
    sys.exit(main())
