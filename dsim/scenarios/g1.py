"""`g1` — Unitree G1 episodes: randomisation within range at every reset event (explicit or
automatic) and gait-phase coherence at every control step; plus the phase clock alone for
long histories and the foot-height profile on a phase grid.

Serves C20.
"""

from __future__ import annotations

import copy
import math

import equinox as eqx
import jax
import numpy as np
from jax import lax
from jax import numpy as jnp
from jax import random as jr
from mujoco import mjx

from lerax.env.unitree.g1 import gait

from ..classes import g1 as classes  # noqa: F401
from ..kernel import RunResult, Trace

NAME = "g1"
PROPS = {"C20"}
PI32 = float(np.float32(np.pi))


def make_env(cls: dict):
    import importlib

    ctor = getattr(importlib.import_module("lerax.env.unitree.g1"), cls["env"])
    kw = {k: (tuple(v) if isinstance(v, list) else v) for k, v in cls.get("kwargs", {}).items()}
    return ctor(**kw)


class Runner:
    def __init__(self, cls: dict):
        self.cls = cls
        self.mode = cls["mode"]
        if self.mode == "clock":
            self._clock = jax.jit(self._clock_impl, static_argnums=(2,))
            self._heights = jax.jit(lambda ph, sw: jax.vmap(lambda p: gait.desired_foot_height(p, sw))(ph))
            return
        self.env = make_env(cls)
        from lerax.wrapper import TimeLimit

        # episodes must END inside the simulated horizon so that automatic resets (reset events) occur
        self.wrapped = TimeLimit(self.env, cls.get("time_limit", 6))
        self.K = cls.get("K", 8)
        self.L = cls.get("L", 20)
        self._initials = eqx.filter_jit(lambda env, keys: jax.vmap(lambda k: env.initial(key=k))(keys))
        self._forward = eqx.filter_jit(lambda models, datas: jax.vmap(lambda m, d: mjx.forward(m, d))(models, datas))
        self._roll = eqx.filter_jit(self._rollout)

    # ------------------------------------------------------------------ phase clock alone

    @staticmethod
    def _clock_impl(freq, dt, n):
        def body(ph, _):
            nxt = gait.advance_gait_phase(ph, freq, dt)
            # `dev`: distance from half a cycle (on the circle); `loc`: its change within ONE tick (does not accumulate)
            dev_of = lambda p: jnp.abs(jnp.abs(p[0] - p[1]) - jnp.pi)
            return nxt, (jnp.max(jnp.abs(nxt)), dev_of(nxt), jnp.abs(dev_of(nxt) - dev_of(ph)))

        ph, (mx, dev, loc) = lax.scan(body, gait.initial_gait_phase(), None, length=n)
        return ph, jnp.max(mx), jnp.max(dev), jnp.max(loc)

    # ------------------------------------------------------------------ episodes through env.step

    def _rollout(self, env, key, hold):
        k0, k1 = jr.split(key)
        wstate, _, _ = env.reset(key=k0)

        def body(wstate, k):
            ka, ks = jr.split(k)
            a = jnp.where(hold, jnp.full(env.action_space.shape, 1.0) * env.action_space.high, env.action_space.sample(key=ka))
            new_wstate, obs, r, term, trunc, _ = env.step(wstate, a, key=ks)
            state, new_state = wstate.unwrapped, new_wstate.unwrapped
            done = term | trunc
            out = {
                "phase_prev": state.gait_phase, "phase": new_state.gait_phase, "freq_prev": state.gait_frequency, "freq": new_state.gait_frequency,
                "done": done, "command": new_state.command, "t": new_state.t,
                "pair_friction": new_state.model.pair_friction, "dof_frictionloss": new_state.model.dof_frictionloss,
                "dof_armature": new_state.model.dof_armature, "body_mass": new_state.model.body_mass,
                "foot_h": gait.desired_foot_height(new_state.gait_phase, 0.15),
            }
            return new_wstate, out

        _, outs = lax.scan(body, wstate, jr.split(k1, self.L))
        return outs

    # ------------------------------------------------------------------ plans

    def gen(self, rng, prop: str) -> dict:
        if self.mode == "clock":
            return {"scenario": NAME, "cls": self.cls, "faults": [],
                    "ops": [{"op": "clock", "freq": rng.choice([0.0, 0.5, 1.0, 1.25, 1.5, 2.0, 3.7, rng.uniform(0.1, 4.0)]), "dt": rng.choice([0.02, 0.04, 0.01, 0.005]), "n": self.cls["n"]},
                            # more than one whole gait cycle per control step (frequency * dt >= 1): the wrap must still land in [-pi, pi]
                            {"op": "clock", "freq": rng.choice([10.5, 11.0, 12.0, 25.0]), "dt": 0.1, "n": self.cls["n"]},
                            {"op": "heights", "swing": rng.choice([0.15, 0.05, 0.3, 1.0]), "grid": 4001}]}
        return {"scenario": NAME, "cls": self.cls, "faults": [],
                "ops": [{"op": "resets", "key": rng.getrandbits(31)}, {"op": "episodes", "key": rng.getrandbits(31), "hold": rng.random() < 0.3}]}

    def shrink_candidates(self, plan: dict):
        if len(plan["ops"]) > 1:
            for i in range(len(plan["ops"])):
                p = copy.deepcopy(plan)
                p["ops"].pop(i)
                yield p

    # ------------------------------------------------------------------ oracles

    def _check_model_fields(self, res, pf, fl, ar, bm, where: str) -> bool:
        """Randomised fields within range around nominal (one reset state)."""
        env = self.env
        base = env.base_model
        ok = True
        nom_pf = np.asarray(base.pair_friction)
        lo, hi = env.friction_range
        blk = pf[0:2, 0:2]
        if np.any(blk < lo - 1e-6) or np.any(blk > hi + 1e-6):
            res.fail("C20", "friction_in_range", "pair_friction_outside_range", where=where, got=blk.tolist(), range=[lo, hi])
            ok = False
        rest = pf.copy()
        rest[0:2, 0:2] = nom_pf[0:2, 0:2]
        if not np.array_equal(rest, nom_pf):
            res.fail("C20", "other_model_fields_nominal", "pair_friction_entries_outside_the_foot_block_changed", where=where)
            ok = False
        for name, got, nom_act, (slo, shi), full_nom in (
            ("frictionloss", fl, np.asarray(env.nominal_friction_loss), env.friction_loss_scale_range, np.asarray(base.dof_frictionloss)),
            ("armature", ar, np.asarray(env.nominal_armature), env.armature_scale_range, np.asarray(base.dof_armature)),
        ):
            act = got[6:]
            a, b = np.minimum(nom_act * slo, nom_act * shi), np.maximum(nom_act * slo, nom_act * shi)
            tol = 1e-6 * np.maximum(1.0, np.abs(nom_act))
            if act.shape != nom_act.shape or np.any(act < a - tol) or np.any(act > b + tol):
                res.fail("C20", f"{name}_in_range", f"dof_{name}_outside_scaled_range", where=where, scale_range=[slo, shi])
                ok = False
            if not np.array_equal(got[:6], full_nom[:6]):
                res.fail("C20", "other_model_fields_nominal", f"free_joint_{name}_changed", where=where)
                ok = False
        nom_m = np.asarray(env.nominal_body_mass)
        mlo, mhi = env.mass_scale_range
        olo, ohi = env.torso_offset_range
        a, b = nom_m * mlo, nom_m * mhi
        a[env.torso_body_id] += olo
        b[env.torso_body_id] += ohi
        tol = 1e-5 * np.maximum(1.0, np.abs(nom_m))
        if bm.shape != nom_m.shape or np.any(bm < a - tol) or np.any(bm > b + tol):
            bad = int(np.argmax((bm < a - tol) | (bm > b + tol))) if bm.shape == nom_m.shape else -1
            res.fail("C20", "mass_in_range", "body_mass_outside_range", where=where, body=bad, torso=int(env.torso_body_id))
            ok = False
        return ok

    def _check_command(self, res, cmd, freq, where: str) -> bool:
        env = self.env
        ok = True
        if self.cls["env"] == "G1Locomotion":
            rng_ = [np.asarray(env.lin_vel_x_range), np.asarray(env.lin_vel_y_range), np.asarray(env.ang_vel_yaw_range)]
            # the all-zero "stand still" command is a documented outcome of sample_command (zero_command_probability)
            zero_ok = bool(np.all(cmd == 0.0)) and float(np.asarray(env.zero_command_probability)) > 0.0
            for j in range(0 if not zero_ok else 3, 3):
                if not (rng_[j][0] - 1e-6 <= cmd[j] <= rng_[j][1] + 1e-6):
                    res.fail("C20", "command_in_range", "command_component_outside_range", where=where, component=j, got=float(cmd[j]), range=rng_[j].tolist())
                    ok = False
            fr = np.asarray(env.gait_frequency_range)
            if not (fr[0] - 1e-6 <= freq <= fr[1] + 1e-6):
                res.fail("C20", "frequency_in_range", "gait_frequency_outside_range", where=where, got=float(freq), range=fr.tolist())
                ok = False
        else:
            if np.any(cmd != 0.0):
                res.fail("C20", "command_in_range", "standing_task_command_not_zero", where=where, got=cmd.tolist())
                ok = False
        return ok

    # ------------------------------------------------------------------ execution

    def execute(self, plan: dict, props: set | None = None) -> RunResult:
        res = RunResult(Trace())
        tr = res.trace
        if self.mode == "clock":
            for op in plan["ops"]:
                if op["op"] == "clock":
                    ph, mx, dev, loc = jax.device_get(self._clock(jnp.asarray(op["freq"], dtype=float), jnp.asarray(op["dt"], dtype=float), int(op["n"])))
                    tr.ev("clock", freq=op["freq"], dt=op["dt"], n=op["n"], max_abs=float(mx), max_dev=float(dev))
                    res.steps += int(op["n"])
                    res.sim_seconds += op["n"] * op["dt"]
                    if op["freq"] * op["dt"] * op["n"] > 1.0:
                        res.events["E.phase_wrap"] += 1
                    if float(mx) > PI32 + 1e-6:
                        res.fail("C20", "phase_in_interval", "phase_left_minus_pi_pi", max_abs=float(mx), freq=op["freq"], dt=op["dt"])
                    else:
                        res.ok("C20", "phase_in_interval", int(op["n"]))
                    # float32: `phase + increment` rounds differently for the two legs (different binades), at most half an ulp of
                    # 4 (2.4e-7) per leg and tick, and the bias is systematic for a fixed increment (observed on correct code:
                    # 2.7e-8 per tick, 1.5e-3 after 1e6 ticks).  Exact per tick up to that; over n ticks at most n times that.
                    # A real defect (legs advancing at different rates, a wrong wrap) is >= 1e-3 per tick.
                    if float(loc) > 1e-5:
                        res.fail("C20", "phase_half_cycle", "phase_distance_changed_within_one_tick", max_step_change=float(loc), freq=op["freq"], dt=op["dt"])
                    elif float(dev) > 1e-4 + 5e-7 * op["n"]:
                        res.fail("C20", "phase_half_cycle", "feet_not_half_a_cycle_apart", max_deviation=float(dev), freq=op["freq"], dt=op["dt"], ticks=op["n"])
                    else:
                        res.ok("C20", "phase_half_cycle", int(op["n"]))
                else:
                    sw = float(op["swing"])
                    grid = np.linspace(-PI32, PI32, int(op["grid"]), dtype=np.float32)
                    ph = jnp.stack([jnp.asarray(grid), jnp.asarray(grid[::-1].copy())], axis=-1)
                    h = np.asarray(self._heights(ph, jnp.asarray(sw, dtype=float)))
                    tr.ev("heights", swing=sw, min=float(h.min()), max=float(h.max()))
                    if h.min() < -1e-6 or h.max() > sw * (1 + 1e-5) + 1e-6:
                        res.fail("C20", "foot_height_range", "desired_height_outside_0_swing", min=float(h.min()), max=float(h.max()), swing=sw)
                    else:
                        res.ok("C20", "foot_height_range", h.size)
                    mid = len(grid) // 2
                    if abs(float(h[0, 0])) > 1e-4 * max(1.0, sw) or abs(float(h[mid, 0]) - sw) > 1e-4 * max(1.0, sw):
                        res.fail("C20", "foot_height_endpoints", "height_not_0_at_minus_pi_or_not_swing_at_0", at_minus_pi=float(h[0, 0]), at_zero=float(h[mid, 0]), swing=sw)
                    else:
                        res.ok("C20", "foot_height_endpoints")
            return res
        env = self.env
        base = env.base_model
        for op in plan["ops"]:
            if op["op"] == "resets":
                keys = jr.split(jr.key(op["key"]), self.K)
                states = self._initials(env, keys)
                fwd = jax.device_get(self._forward(states.model, states.sim_state))
                st = jax.device_get(states)
                tr.ev("resets", K=self.K)
                res.events["E.reset"] += self.K
                # every other model leaf equals the nominal model, bit for bit
                base_l = jax.tree_util.tree_leaves_with_path(jax.device_get(base))
                got_l = jax.tree_util.tree_leaves_with_path(st.model)
                randomised = ("pair_friction", "dof_frictionloss", "dof_armature", "body_mass")
                if len(base_l) != len(got_l):
                    res.fail("C20", "other_model_fields_nominal", "model_structure_changed")
                else:
                    for (p, b), (_, g) in zip(base_l, got_l):
                        name = jax.tree_util.keystr(p)
                        if any(r in name for r in randomised) or not hasattr(b, "shape"):
                            continue
                        b, g = np.asarray(b), np.asarray(g)
                        for i in range(self.K):
                            if g[i].shape != b.shape or g[i].tobytes() != b.tobytes():
                                res.fail("C20", "other_model_fields_nominal", f"model_field_changed:{name.strip('.')}", key_index=i)
                                break
                        else:
                            continue
                        break
                    else:
                        res.ok("C20", "other_model_fields_nominal", self.K)
                distinct_friction = set()
                for i in range(self.K):
                    okm = self._check_model_fields(res, np.asarray(st.model.pair_friction)[i], np.asarray(st.model.dof_frictionloss)[i], np.asarray(st.model.dof_armature)[i], np.asarray(st.model.body_mass)[i], f"initial[{i}]")
                    okc = self._check_command(res, np.asarray(st.command)[i], float(np.asarray(st.gait_frequency)[i]), f"initial[{i}]")
                    distinct_friction.add(float(np.asarray(st.model.pair_friction)[i][0, 0]))
                    if okm:
                        for c in ("friction_in_range", "frictionloss_in_range", "armature_in_range", "mass_in_range"):
                            res.ok("C20", c)
                    if okc:
                        res.ok("C20", "command_in_range")
                        res.ok("C20", "frequency_in_range")
                    # derived kinematics consistent with the joint configuration
                    # kinematic quantities only: force / acceleration sensors depend on the state of MJX's iterative
                    # constraint solver (not idempotent under deep ground contact) and are not "derived kinematics"
                    for fld, tol in (("xpos", 1e-4), ("xquat", 1e-4), ("xmat", 1e-4), ("xipos", 1e-4), ("site_xpos", 1e-4), ("site_xmat", 1e-4)):
                        a, b = np.asarray(getattr(st.sim_state, fld))[i], np.asarray(getattr(fwd, fld))[i]
                        if not np.allclose(a, b, rtol=1e-4, atol=tol):
                            res.fail("C20", "kinematics_consistent", f"stored_{fld}_differs_from_forward_kinematics", key_index=i, max_abs=float(np.max(np.abs(a - b))))
                            break
                    else:
                        res.ok("C20", "kinematics_consistent")
                    ph = np.asarray(st.gait_phase)[i]
                    if np.any(np.abs(ph) > PI32 + 1e-6) or abs(abs(float(ph[0] - ph[1])) - math.pi) > 1e-4:
                        res.fail("C20", "phase_half_cycle", "initial_phase_not_half_a_cycle_apart", got=ph.tolist())
                if env.friction_range[0] != env.friction_range[1] and len(distinct_friction) < 2 and self.K >= 4:
                    res.fail("C20", "friction_in_range", "friction_not_randomised_across_keys", K=self.K)
                res.steps += self.K
            else:
                outs = jax.device_get(self._roll(self.wrapped, jr.key(op["key"]), jnp.asarray(bool(op["hold"]))))
                L = self.L
                dt = float(np.asarray(env.dt))
                res.steps += L
                res.sim_seconds += L * dt
                n_done = int(np.sum(outs["done"]))
                res.events["E.auto_reset"] += n_done
                tr.ev("episodes", L=L, dones=n_done, hold=op["hold"])
                for t in range(L):
                    ph, php = np.asarray(outs["phase"][t], dtype=np.float64), np.asarray(outs["phase_prev"][t], dtype=np.float64)
                    if np.any(np.abs(ph) > PI32 + 1e-6):
                        res.fail("C20", "phase_in_interval", "phase_left_minus_pi_pi_in_episode", t=t, got=ph.tolist())
                        break
                    d = abs(ph[0] - ph[1])
                    if abs(d - math.pi) > 1e-4:
                        res.fail("C20", "phase_half_cycle", "feet_not_half_a_cycle_apart_in_episode", t=t, got=ph.tolist())
                        break
                    if bool(outs["done"][t]):
                        # a reset event: the new state must again be randomised within range
                        self._check_model_fields(res, np.asarray(outs["pair_friction"][t]), np.asarray(outs["dof_frictionloss"][t]), np.asarray(outs["dof_armature"][t]), np.asarray(outs["body_mass"][t]), f"auto_reset@{t}")
                        self._check_command(res, np.asarray(outs["command"][t]), float(outs["freq"][t]), f"auto_reset@{t}")
                        if float(outs["t"][t]) != 0.0:
                            res.fail("C20", "command_in_range", "episode_clock_not_restarted", t=t)
                    else:
                        f = float(outs["freq_prev"][t])
                        inc = 2 * math.pi * f * dt
                        want = np.fmod(php + inc + math.pi, 2 * math.pi) - math.pi
                        diff = np.abs(ph - want)
                        diff = np.minimum(diff, 2 * math.pi - diff)
                        if np.any(diff > 1e-4):
                            res.fail("C20", "phase_advance_per_control_step", "phase_not_advanced_by_2pi_f_dt", t=t, prev=php.tolist(), got=ph.tolist(), expected=want.tolist(), frequency=f, dt=dt)
                            break
                        if inc > 0 and np.any(ph < php):
                            res.events["E.phase_wrap"] += 1
                    fh = np.asarray(outs["foot_h"][t])
                    if np.any(fh < -1e-6) or np.any(fh > 0.15 + 1e-5):
                        res.fail("C20", "foot_height_range", "foot_height_outside_range_in_episode", t=t, got=fh.tolist())
                        break
                else:
                    res.ok("C20", "phase_in_interval", L)
                    res.ok("C20", "phase_half_cycle", L)
                    res.ok("C20", "phase_advance_per_control_step", L - n_done)
        return res
