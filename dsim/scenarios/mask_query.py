"""`mask_query` — masks offered by the environment along simulated episodes, with shadow
queries of the policy in its three modes (key-less, keyed, epsilon-greedy).

Serves C16: no masked action is ever returned or reaches the environment; key-less = mode
of the masked distribution the policy itself reports; keyed log-prob is that of the
returned action; masked probabilities are zero and the rest renormalised proportionally;
a Q policy departs from greedy with frequency <= epsilon (+ Hoeffding slack at 1e-12).

Policies: SimTablePolicy / SimQTable (tables) and the real MLPActorCriticPolicy / MLPQPolicy.
"""

from __future__ import annotations

import copy
import itertools
import math
import random

import equinox as eqx
import jax
import numpy as np
from jax import numpy as jnp
from jax import random as jr

from lerax.policy import MLPActorCriticPolicy, MLPQPolicy

from ..classes import mask_query as classes  # noqa: F401
from ..kernel import RunResult, Trace
from ..ref.mdp import RefMDP
from ..world.mdp import SimMDP, comps_of, dummy_tables, gen_tables, joint_size, np_obs_ids, with_tables
from ..world.policy import SimQTable, SimTablePolicy, gen_policy_tables, with_policy_tables

NAME = "mask_query"
PROPS = {"C16"}


def all_actions(kind: str, comps) -> np.ndarray:
    if kind == "discrete":
        return np.arange(comps[0], dtype=np.int32)
    grid = list(itertools.product(*[range(c) for c in comps]))
    a = np.asarray(grid, dtype=np.int32)
    return a.astype(bool) if kind == "multibinary" else a


class Runner:
    def __init__(self, cls: dict):
        self.cls = cls
        self.kind = cls["kind"]
        self.comps = comps_of(self.kind, tuple(cls["dims"]))
        self.NS = cls["S"] + 1
        self.K = cls["K"]
        self.L = cls["L"]
        tables = dummy_tables(cls["S"], self.kind, tuple(cls["dims"]), masked=True)
        self.env0 = SimMDP(self.kind, tuple(cls["dims"]), cls["obs_kind"], tables, box_low=float(cls.get("box_low", -1.0)), box_high=float(cls.get("box_high", 1.0)))
        self.acts = all_actions(self.kind, self.comps)
        self.ptype = cls["policy"]
        self.build_error = None
        self.policy0 = None
        try:
            self.policy0 = self._make_policy(0)
        except Exception as exc:  # noqa: BLE001
            from ..kernel import lerax_frame

            self.build_error = (f"{type(exc).__name__}: {str(exc)[:160]}", lerax_frame(exc))
        self._walk = eqx.filter_jit(self._walk_impl)

    def _make_policy(self, seed: int, scale: float = 1.0):
        if self.ptype == "table_ac":
            return SimTablePolicy(self.env0, gen_policy_tables(random.Random(seed), NS=self.NS, kind=self.kind, comps=self.comps), use_probs=bool(self.cls.get("use_probs", False)))
        if self.ptype == "qtable":
            return SimQTable(self.env0, np.zeros((self.NS, self.comps[0])), epsilon=self.cls["epsilon"])
        if self.ptype == "mlp_ac":
            return MLPActorCriticPolicy(self.env0, feature_size=8, feature_width=8, value_width=8, action_width=8, key=jr.key(seed), **dict(self.cls.get("mlp_kwargs", {})))
        if self.ptype == "mlp_q":
            return MLPQPolicy(self.env0, epsilon=self.cls["epsilon"], width_size=8, depth=1, key=jr.key(seed))
        if self.ptype == "mlp_sac":
            from lerax.policy import MLPSACPolicy

            return MLPSACPolicy(self.env0, feature_size=8, width_size=8, depth=1, key=jr.key(seed))
        raise ValueError(self.ptype)

    # ------------------------------------------------------------------ simulated walk

    def _walk_impl(self, env, policy, key):
        K, L = self.K, self.L
        acts = jnp.asarray(self.acts)
        is_q = self.ptype in ("qtable", "mlp_q")

        def step(carry, k):
            env_state, pstate = carry
            k_obs, k_q, k_step = jr.split(k, 3)
            obs = env.observation(env_state, key=k_obs)
            mask = env.action_mask(env_state, key=k_obs)
            keys = jr.split(k_q, K)
            out = {"s": env_state.s, "mask": mask}
            _, a0 = policy(pstate, obs, action_mask=mask)
            out["keyless"] = a0
            _, ak = jax.vmap(lambda kk: policy(pstate, obs, key=kk, action_mask=mask))(keys)
            out["keyed"] = ak
            if is_q:
                _, q = policy.q_values(pstate, obs)
                out["q"] = q
                a_exec = ak[0]
                new_p = pstate
            else:
                new_p, a_s, v_s, lp_s = jax.vmap(lambda kk: policy.action_and_value(pstate, obs, key=kk, action_mask=mask))(keys)
                out["aav_a"], out["aav_lp"], out["aav_v"] = a_s, lp_s, v_s
                _, v_m, lp_m, _ = jax.vmap(lambda a: policy.evaluate_action(pstate, obs, a, action_mask=mask))(acts)
                _, _, lp_u, _ = jax.vmap(lambda a: policy.evaluate_action(pstate, obs, a))(acts)
                out["lp_masked"], out["lp_unmasked"], out["v_eval"] = lp_m, lp_u, v_m
                a_exec = a_s[0]
                new_p = jax.tree.map(lambda x: x[0], new_p)
            nstate, _, r, term, trunc, _ = env.step(env_state, a_exec, key=k_step)
            out["exec"] = a_exec
            out["next_s"] = nstate.s
            out["done"] = term | trunc
            new_p = jax.lax.cond(term | trunc, lambda: policy.reset(key=k_step), lambda: new_p) if new_p is not None else None
            return (nstate, new_p), out

        k0, k1, k2 = jr.split(key, 3)
        env_state = env.initial(key=k0)
        pstate = policy.reset(key=k1)
        _, outs = jax.lax.scan(step, (env_state, pstate), jr.split(k2, L))
        return outs

    def _walk_sac_impl(self, env, policy, key):
        """SAC policy (continuous actions, no masks): key-less = mode of the law it reports, keyed log-prob = that law's log-prob."""
        K, L = self.K, self.L

        def step(env_state, k):
            k_obs, k_q, k_step = jr.split(k, 3)
            obs = env.observation(env_state, key=k_obs)
            keys = jr.split(k_q, K)
            _, a0 = policy(None, obs)
            _, a0b = policy(None, obs)
            _, dist = policy.action_distribution(None, obs)
            _, ak = jax.vmap(lambda kk: policy(None, obs, key=kk))(keys)
            _, a_s, lp_s = jax.vmap(lambda kk: policy.action_and_log_prob(None, obs, key=kk))(keys)
            lp_re = jax.vmap(lambda a: jnp.sum(dist.log_prob(a)))(a_s)
            nstate, _, _, _, _, _ = env.step(env_state, ak[0], key=k_step)
            return nstate, {"keyless": a0, "keyless2": a0b, "mode": dist.mode(), "keyed": ak, "alp_a": a_s, "alp_lp": lp_s, "lp_re": lp_re}

        k0, k2 = jr.split(key)
        _, outs = jax.lax.scan(step, env.initial(key=k0), jr.split(k2, L))
        return outs

    def _exec_sac(self, plan, env, policy) -> RunResult:
        res = RunResult(Trace())
        if getattr(self, "_walk_sac", None) is None:
            self._walk_sac = eqx.filter_jit(self._walk_sac_impl)
        lo, hi = np.asarray(env.action_space.low, dtype=np.float64), np.asarray(env.action_space.high, dtype=np.float64)
        for op in plan["ops"]:
            outs = jax.device_get(self._walk_sac(env, policy, jr.key(op["key"])))
            res.trace.ev("op", op="walk_sac", key=op["key"])
            for t in range(self.L):
                a0, a0b, mode = (np.asarray(outs[k][t], dtype=np.float64) for k in ("keyless", "keyless2", "mode"))
                if not np.array_equal(a0, a0b):
                    res.fail("C16", "keyless_is_mode", "keyless_sac_action_not_deterministic", t=t)
                elif not np.allclose(a0, mode, rtol=0, atol=1e-5 * float(np.max(hi - lo))):
                    res.fail("C16", "keyless_is_mode", "keyless_sac_action_not_the_mode_of_the_reported_law", t=t, got=a0.tolist(), mode=mode.tolist())
                else:
                    res.ok("C16", "keyless_is_mode")
                a = np.asarray(outs["alp_a"][t], dtype=np.float64).reshape(self.K, -1)
                lp, lp_re = np.asarray(outs["alp_lp"][t], dtype=np.float64), np.asarray(outs["lp_re"][t], dtype=np.float64)
                # away from the bounds (the squashing Jacobian loses precision where tanh saturates)
                inner = np.all((a > lo + 0.02 * (hi - lo)) & (a < hi - 0.02 * (hi - lo)), axis=1) & np.isfinite(lp) & np.isfinite(lp_re)
                bad = inner & (np.abs(lp - lp_re) > 1e-3 * np.maximum(1.0, np.abs(lp_re)))
                if np.any(bad):
                    i = int(np.argmax(bad))
                    res.fail("C16", "keyed_logprob_of_returned", "sac_logprob_not_of_returned_action", t=t, got=float(lp[i]), expected=float(lp_re[i]))
                else:
                    res.ok("C16", "keyed_logprob_of_returned", int(inner.sum()))
                keyed = np.asarray(outs["keyed"][t], dtype=np.float64).reshape(self.K, -1)
                if len({row.tobytes() for row in keyed}) < min(self.K, 4):
                    res.fail("C16", "keyed_samples_follow_reported_law", "keyed_sac_actions_do_not_vary_with_the_key", t=t)
            res.steps += self.L
        return res

    # ------------------------------------------------------------------ plans

    def gen(self, rng, prop: str) -> dict:
        cls = self.cls
        tables = gen_tables(rng, S=cls["S"], kind=self.kind, dims=tuple(cls["dims"]), masked=True,
                            bias={"p_term": rng.choice([0.0, 0.2]), "p_trunc": 0.0, "p_mask_single": rng.choice([0.2, 0.5, 0.8])})
        plan = {"scenario": NAME, "cls": cls, "world": tables, "ops": [{"op": "walk", "key": rng.getrandbits(31)} for _ in range(rng.randint(1, 3))], "faults": []}
        if self.ptype == "table_ac":
            plan["policy"] = gen_policy_tables(rng, NS=self.NS, kind=self.kind, comps=self.comps)
            if rng.random() < 0.3 and not self.cls.get("use_probs"):  # huge gaps (probabilities would underflow to exact zeros)
                plan["policy"]["logits"] = [[rng.choice([-30.0, 0.0, 30.0]) for _ in row] for row in plan["policy"]["logits"]]
        elif self.ptype == "qtable":
            style = rng.choice(["distinct", "ties", "huge"])
            A = self.comps[0]
            if style == "distinct":
                q = [[v / 4.0 for v in rng.sample(range(-16, 17), A)] for _ in range(self.NS)]
            elif style == "ties":
                q = [[rng.choice([0.0, 1.0]) for _ in range(A)] for _ in range(self.NS)]
            else:
                q = [[rng.choice([-1e4, 0.0, 1e4]) for _ in range(A)] for _ in range(self.NS)]
            plan["policy"] = {"q": q}
        else:
            plan["policy"] = {"init_seed": rng.getrandbits(31), "scale": rng.choice([1.0, 1.0, 8.0, 64.0, 0.0])}
        return plan

    def shrink_candidates(self, plan: dict):
        if len(plan["ops"]) > 1:
            p = copy.deepcopy(plan)
            p["ops"].pop()
            yield p
        p = copy.deepcopy(plan)
        p["world"]["term"] = [False] * self.NS
        if p != plan:
            yield p

    def _policy_for(self, plan):
        pp = plan["policy"]
        if self.ptype == "table_ac":
            return with_policy_tables(self.policy0, pp)
        if self.ptype == "qtable":
            return eqx.tree_at(lambda p: p.q, self.policy0, jnp.asarray(pp["q"], dtype=float))
        pol = self._make_policy(pp["init_seed"])
        sc = float(pp["scale"])
        if self.ptype == "mlp_sac":
            return pol
        if sc != 1.0:
            # scale every floating leaf of the last layers: large logit gaps / exact ties (0)
            if self.ptype == "mlp_ac":
                pol = eqx.tree_at(lambda p: p.action_head.action_dist, pol, jax.tree.map(lambda x: x * sc if eqx.is_inexact_array(x) else x, pol.action_head.action_dist))
            else:
                last = pol.q_network.layers[-1]
                pol = eqx.tree_at(lambda p: p.q_network.layers[-1], pol, jax.tree.map(lambda x: x * sc if eqx.is_inexact_array(x) else x, last))
        return pol

    # ------------------------------------------------------------------ execution

    def execute(self, plan: dict, props: set | None = None) -> RunResult:
        res = RunResult(Trace())
        tr = res.trace
        if self.build_error is not None:
            msg, frame = self.build_error
            res.fail("C16", "crash", f"policy_construct:{self.ptype}/{self.kind}", message=msg, where=frame)
            tr.ev("construct_failed", policy=self.ptype, action_kind=self.kind)
            return res
        env = with_tables(self.env0, plan["world"])
        policy = self._policy_for(plan)
        if self.ptype == "mlp_sac":
            return self._exec_sac(plan, env, policy)
        mdp = RefMDP(self.kind, self.comps, plan["world"])
        E = res.events
        is_q = self.ptype in ("qtable", "mlp_q")
        eps = float(self.cls.get("epsilon", 0.0))
        K = self.K
        slack = math.sqrt(K * math.log(1e12) / 2.0)
        acts = self.acts
        for op in plan["ops"]:
            outs = jax.device_get(self._walk(env, policy, jr.key(op["key"])))
            tr.ev("op", op="walk", key=op["key"])
            freq = {"keyed": [0.0, 0], "aav_a": [0.0, 0]}  # per sampling path: sum of (hits - K*p), number of samples
            for t in range(self.L):
                s = int(outs["s"][t])
                mask = np.asarray(outs["mask"][t], dtype=bool)
                if s == mdp.poison:
                    res.fail("C16", "masked_never_executed", "poison_state_reached", t=t)
                    break
                if not np.array_equal(mask, mdp.mask[s]):
                    res.fail("C16", "masked_never_executed", "mask_offered_differs_from_table", t=t, s=s)
                allowed_joint = np.array([mdp.allowed(s, a) for a in acts])
                n_allowed = int(allowed_joint.sum())
                if n_allowed == 1:
                    E["E.mask_single"] += 1
                if t > 0 and not np.array_equal(mask, np.asarray(outs["mask"][t - 1], dtype=bool)):
                    E["E.mask_changes"] += 1
                a0 = outs["keyless"][t]
                keyed = outs["keyed"][t]
                tr.ev("query", t=t, s=s, mask=mask.tolist(), keyless=np.asarray(a0).tolist(), exec=np.asarray(outs["exec"][t]).tolist())
                # ---- no masked action is ever returned
                bad = None
                if not mdp.allowed(s, a0):
                    bad = ("keyless", np.asarray(a0).tolist())
                else:
                    for kk in range(K):
                        if not mdp.allowed(s, keyed[kk]):
                            bad = ("keyed", np.asarray(keyed[kk]).tolist())
                            break
                if bad is None and not is_q:
                    for kk in range(K):
                        if not mdp.allowed(s, outs["aav_a"][t][kk]):
                            bad = ("action_and_value", np.asarray(outs["aav_a"][t][kk]).tolist())
                            break
                if bad is not None:
                    res.fail("C16", "masked_never_returned", f"masked_action_from_{bad[0]}", t=t, s=s, mask=mask.tolist(), action=bad[1])
                else:
                    res.ok("C16", "masked_never_returned", K)
                if not mdp.allowed(s, outs["exec"][t]) or int(outs["next_s"][t]) == mdp.poison:
                    res.fail("C16", "masked_never_executed", "masked_action_reached_environment", t=t, s=s)
                else:
                    res.ok("C16", "masked_never_executed")

                def index_of(a):
                    a = np.asarray(a).astype(int).reshape(-1)
                    idx = 0
                    for j, nj in enumerate(self.comps):
                        idx = idx * nj + int(a[j] if a.size > 1 or self.kind != "discrete" else a[0])
                    return idx

                if is_q:
                    q = np.asarray(outs["q"][t], dtype=np.float64)
                    qm = np.where(allowed_joint, q, -np.inf)
                    best = float(np.max(qm))
                    greedy = {i for i in range(len(q)) if allowed_joint[i] and q[i] >= best - 1e-6 * max(1.0, abs(best))}
                    if int(a0) not in greedy:
                        res.fail("C16", "keyless_is_mode", "keyless_q_action_not_greedy", t=t, s=s, q=q.tolist(), mask=mask.tolist(), got=int(a0))
                    else:
                        res.ok("C16", "keyless_is_mode")
                    nongreedy = int(sum(1 for kk in range(K) if int(keyed[kk]) not in greedy))
                    if len(greedy) < n_allowed:
                        E["E.nongreedy_possible"] += 1
                    if nongreedy > eps * K + slack:
                        res.fail("C16", "epsilon_bound", "nongreedy_frequency_above_epsilon", t=t, s=s, nongreedy=nongreedy, K=K, epsilon=eps)
                    else:
                        res.ok("C16", "epsilon_bound")
                    if eps > 0 and len(greedy) < n_allowed and nongreedy > 0:
                        res.probes["epsilon_exploration_seen"] += 1
                    continue
                # ---- actor-critic: distribution the policy itself reports
                lp_m = np.asarray(outs["lp_masked"][t], dtype=np.float64)
                lp_u = np.asarray(outs["lp_unmasked"][t], dtype=np.float64)
                with np.errstate(over="ignore", invalid="ignore"):
                    p_m = np.exp(lp_m)
                    p_u = np.exp(lp_u)
                if np.any(np.isnan(p_m)):
                    res.fail("C16", "masked_prob_zero_renormalised", "nan_probability_under_mask", t=t, s=s, mask=mask.tolist())
                    continue
                if np.any(p_m[~allowed_joint] > 0.0):
                    res.fail("C16", "masked_prob_zero_renormalised", "masked_action_has_positive_probability", t=t, s=s, mask=mask.tolist(), probs=p_m.tolist())
                elif abs(float(p_m.sum()) - 1.0) > 1e-4:
                    res.fail("C16", "masked_prob_zero_renormalised", "masked_probabilities_do_not_sum_to_one", t=t, s=s, total=float(p_m.sum()))
                else:
                    z = float(p_u[allowed_joint].sum())
                    if z > 1e-20:
                        want = np.where(allowed_joint, p_u / z, 0.0)
                        if not np.allclose(p_m, want, rtol=1e-3, atol=1e-5):
                            res.fail("C16", "masked_prob_zero_renormalised", "not_proportional_to_unmasked", t=t, s=s, got=p_m.tolist(), expected=want.tolist())
                        else:
                            res.ok("C16", "masked_prob_zero_renormalised")
                    else:
                        res.probes["allowed_mass_underflow"] += 1
                best = float(np.max(p_m))
                modes = {i for i in range(len(p_m)) if p_m[i] >= best - 1e-6}
                if index_of(a0) not in modes:
                    res.fail("C16", "keyless_is_mode", "keyless_action_not_a_mode", t=t, s=s, got=np.asarray(a0).tolist(), probs=p_m.tolist())
                else:
                    res.ok("C16", "keyless_is_mode")
                # keyed: reported log-prob is that of the returned action under the same masked law
                okk = True
                for kk in range(K):
                    a = outs["aav_a"][t][kk]
                    if mdp.allowed(s, a):
                        want = lp_m[index_of(a)]
                        got = float(outs["aav_lp"][t][kk])
                        if not (abs(got - want) <= 2e-4 * max(1.0, abs(want))):
                            res.fail("C16", "keyed_logprob_of_returned", "logprob_not_of_returned_action", t=t, s=s, action=np.asarray(a).tolist(), got=got, expected=float(want))
                            okk = False
                            break
                if okk:
                    res.ok("C16", "keyed_logprob_of_returned", K)
                # a sampled action must have positive reported probability
                for kk in range(K):
                    a = keyed[kk]
                    if mdp.allowed(s, a) and p_m[index_of(a)] <= 0.0:
                        res.fail("C16", "keyed_logprob_of_returned", "sampled_action_has_zero_reported_probability", t=t, s=s, action=np.asarray(a).tolist())
                        break
                # ... and keyed sampling follows the law the policy reports: how often the most probable JOINT action comes back
                # (components drawn from correlated noise keep their marginals but not this frequency)
                star = int(np.argmax(p_m))
                if 0.1 <= p_m[star] <= 0.9:
                    for path in freq:
                        hits = sum(1 for kk in range(K) if index_of(outs[path][t][kk]) == star)
                        freq[path][0] += hits - K * float(p_m[star])
                        freq[path][1] += K
            if not is_q:
                for path, (dsum, n_s) in freq.items():
                    if n_s >= 2000:
                        # Azuma-Hoeffding for a sum of n_s centred indicators: exceeds the bound with probability <= 1e-12 on correct code
                        bound = math.sqrt(n_s * math.log(2e12) / 2.0)
                        tr.ev("freq", path=path, n=n_s, dev=round(dsum, 3))
                        res.events["E.frequency_probe"] += 1
                        if abs(dsum) > bound:
                            res.fail("C16", "keyed_samples_follow_reported_law", "joint_action_frequency_differs_from_reported_probability",
                                     path="policy.__call__" if path == "keyed" else "action_and_value", samples=n_s, excess=dsum / n_s, allowed=bound / n_s)
                        else:
                            res.ok("C16", "keyed_samples_follow_reported_law", n_s)
            res.steps += self.L
        return res
