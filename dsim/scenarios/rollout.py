"""S2 `rollout` — long auto-reset rollouts of the built-in environments (classic control,
MuJoCo, Unitree G1) and wrapper stacks over them under a seeded *adversary* action
schedule (uniform samples, long holds of a bound corner, alternation between opposite
corners, mixed corners).

Invariants after every step (C02): the observation is a member of the declared observation
space with the canonical shape/dtype and no NaN; sampled actions are members of the action
space and accepted; reward is a finite float scalar; terminal/truncated are boolean
scalars.  Python-side-state independence is the determinism obligation (same plan twice,
opposite order relative to other plans, fresh process via the driver's re-checks).

Also (C01, built-in environments): `step` returns exactly what the functional components
give for the same state and action, and a fresh state (episode clock 0) on done; (C12)
vmapped = single = eager execution of the same step.
"""

from __future__ import annotations

import copy
import importlib

import equinox as eqx
import jax
import numpy as np
from jax import lax
from jax import numpy as jnp
from jax import random as jr

from lerax import wrapper as W
from lerax.space import Box, Discrete

from ..classes import rollout as classes  # noqa: F401
from ..kernel import RunResult, Trace

NAME = "rollout"
PROPS = {"C01", "C02", "C12"}

ENVS = {
    "CartPole": ("lerax.env.classic_control", "CartPole"),
    "MountainCar": ("lerax.env.classic_control", "MountainCar"),
    "ContinuousMountainCar": ("lerax.env.classic_control", "ContinuousMountainCar"),
    "Acrobot": ("lerax.env.classic_control", "Acrobot"),
    "Pendulum": ("lerax.env.classic_control", "Pendulum"),
    "Ant": ("lerax.env.mujoco", "Ant"),
    "HalfCheetah": ("lerax.env.mujoco", "HalfCheetah"),
    "Hopper": ("lerax.env.mujoco", "Hopper"),
    "Humanoid": ("lerax.env.mujoco", "Humanoid"),
    "HumanoidStandup": ("lerax.env.mujoco", "HumanoidStandup"),
    "InvertedDoublePendulum": ("lerax.env.mujoco", "InvertedDoublePendulum"),
    "InvertedPendulum": ("lerax.env.mujoco", "InvertedPendulum"),
    "Pusher": ("lerax.env.mujoco", "Pusher"),
    "Reacher": ("lerax.env.mujoco", "Reacher"),
    "Swimmer": ("lerax.env.mujoco", "Swimmer"),
    "Walker2d": ("lerax.env.mujoco", "Walker2d"),
    "G1Locomotion": ("lerax.env.unitree.g1", "G1Locomotion"),
    "G1Standing": ("lerax.env.unitree.g1", "G1Standing"),
    "G1Standup": ("lerax.env.unitree.g1", "G1Standup"),
}


from lerax.wrapper.misc import IdentityState  # noqa: E402


class SpyState(IdentityState):
    ok: jax.Array


class ActionSpy(W.Identity):
    """Seam between the wrapper stack and the environment proper: notes whether the action that actually reaches the
    environment is a member of ITS action space (Box bounds, with one affine map's worth of float32 slack)."""

    def initial(self, *, key):
        return SpyState(self.env.initial(key=key), jnp.array(True))

    def transition(self, state, action, *, key):
        sp = self.env.action_space
        ok = jnp.array(True)
        if isinstance(sp, Box):
            a = jnp.asarray(action, dtype=float)
            lo, hi = jnp.asarray(sp.low, dtype=float), jnp.asarray(sp.high, dtype=float)
            tol = 1e-4 * jnp.where(jnp.isfinite(hi - lo), hi - lo, 1.0)
            ok = jnp.all((a >= lo - tol) & (a <= hi + tol)) & ~jnp.any(jnp.isnan(a))
        return SpyState(self.env.transition(state.env_state, action, key=key), ok)


def spy_flag(state):
    s = state
    while True:
        if isinstance(s, SpyState):
            return s.ok
        if not hasattr(s, "env_state"):
            return jnp.array(True)
        s = s.env_state


def make_env(cls: dict):
    mod, name = ENVS[cls["env"]]
    ctor = getattr(importlib.import_module(mod), name)
    kwargs = dict(cls.get("kwargs", {}))
    if kwargs.pop("tsit5", False):
        import diffrax

        kwargs["solver"] = diffrax.Tsit5()
    env = ctor(**kwargs)
    if cls.get("stack") and any(sp[0] in ("ClipAction", "RescaleAction") for sp in cls["stack"]):
        env = ActionSpy(env)
    for spec in cls.get("stack", []):
        if spec[0] == "TimeLimit":
            env = W.TimeLimit(env, int(spec[1]))
        elif spec[0] == "ClipAction":
            env = W.ClipAction(env)
        elif spec[0] == "RescaleAction":
            env = W.RescaleAction(env, jnp.array(float(spec[1])), jnp.array(float(spec[2])))
        elif spec[0] == "FlattenObservation":
            env = W.FlattenObservation(env)
        elif spec[0] == "ClipObservation":
            env = W.ClipObservation(env)
        elif spec[0] == "RescaleObservation":
            if isinstance(spec[1], (list, tuple)):   # per-dimension targets, infinite where the inner space is unbounded
                env = W.RescaleObservation(env, jnp.array([float(x) for x in spec[1]]), jnp.array([float(x) for x in spec[2]]))
            else:
                env = W.RescaleObservation(env, jnp.array(float(spec[1])), jnp.array(float(spec[2])))
        elif spec[0] == "Identity":
            env = W.Identity(env)
        elif spec[0] == "ClipReward":
            env = W.ClipReward(env, float(spec[1]), float(spec[2]))
        else:
            raise ValueError(spec)
    return env


class CtorRunner:
    """Constructor-option sweep: every combination of the documented observation options of a built-in environment must
    declare the space its observations actually have (shape, dtype, structure) — decided abstractly (`jax.eval_shape`),
    so a run costs milliseconds for `reset` and a few seconds for one `step`."""

    def __init__(self, cls: dict):
        self.cls = cls
        mod, name = ENVS[cls["env"]]
        self.ctor = getattr(importlib.import_module(mod), name)
        self.flags = list(cls["flags"])

    def gen(self, rng, prop: str) -> dict:
        ops = [{"op": "ctor", "kwargs": {f: rng.random() < 0.5 for f in self.flags}, "wrap": rng.random() < 0.5, "step": i == 0, "key": rng.getrandbits(31)} for i in range(rng.randint(2, 4))]
        # one flag differing from all the others (two sites keyed on different flags only disagree on such combinations)
        odd = rng.choice(self.flags)
        v = rng.random() < 0.5
        ops.append({"op": "ctor", "kwargs": {f: (v if f != odd else not v) for f in self.flags}, "wrap": False, "step": False, "key": rng.getrandbits(31)})
        return {"scenario": NAME, "cls": self.cls, "ops": ops, "faults": []}

    def shrink_candidates(self, plan: dict):
        if len(plan["ops"]) > 1:
            for i in range(len(plan["ops"])):
                p = copy.deepcopy(plan)
                p["ops"].pop(i)
                yield p

    @staticmethod
    def _sig(tree):
        return [(tuple(x.shape), str(x.dtype)) for x in jax.tree.leaves(tree)]

    def execute(self, plan: dict, props: set | None = None) -> RunResult:
        res = RunResult(Trace())
        name = self.cls["env"]
        for op in plan["ops"]:
            env = self.ctor(**op["kwargs"])
            if op["wrap"]:
                env = W.TimeLimit(env, 10)
            canon = env.observation_space.canonical()
            state, obs, _ = jax.eval_shape(lambda k: env.reset(key=k), jr.key(op["key"]))
            res.trace.ev("ctor", env=name, kwargs=op["kwargs"], wrap=op["wrap"], obs=[list(a) + [b] for a, b in self._sig(obs)])
            res.events["E.nondefault_constructor_options"] += 1
            res.steps += 1
            ok = jax.tree.structure(obs) == jax.tree.structure(canon) and self._sig(obs) == self._sig(canon)
            if ok and op["step"]:
                _, obs2, r, te, tu, _ = jax.eval_shape(lambda s, a, k: env.step(s, a, key=k), state, env.action_space.canonical(), jr.key(op["key"]))
                ok = self._sig(obs2) == self._sig(canon)
                if (tuple(r.shape), r.dtype.kind) != ((), "f"):
                    res.fail("C02", "reward_finite_scalar", "reward_not_a_float_scalar", env=name, kwargs=op["kwargs"], dtype=str(r.dtype), shape=list(r.shape))
                if (tuple(te.shape), str(te.dtype), tuple(tu.shape), str(tu.dtype)) != ((), "bool", (), "bool"):
                    res.fail("C02", "flags_bool_scalar", "flags_not_boolean_scalars", env=name, kwargs=op["kwargs"])
            if not ok:
                res.fail("C02", "obs_dtype_shape", "observation_shape_or_dtype_differs_from_declared_space", env=name, kwargs=op["kwargs"],
                         got=[[list(a), b] for a, b in self._sig(obs)], declared=[[list(a), b] for a, b in self._sig(canon)])
            else:
                res.ok("C02", "obs_dtype_shape")
        return res


class Runner:
    def __new__(cls_, cls: dict):
        if cls.get("mode") == "ctor":
            return CtorRunner(cls)
        return super().__new__(cls_)

    def __init__(self, cls: dict):
        self.cls = cls
        self.env = make_env(cls)
        self.L = cls["L"]
        self.is_box = isinstance(self.env.action_space, Box)
        self.unbounded_action = self.is_box and not bool(np.all(np.isfinite(np.asarray(self.env.action_space.low))))
        self._roll = eqx.filter_jit(self._rollout)
        self._vstep = eqx.filter_jit(lambda env, st, a, ks: eqx.filter_vmap(lambda s, x, k: env.step(s, x, key=k))(st, a, ks))
        self.dt = float(np.asarray(getattr(self.env.unwrapped, "dt", 0.0)))
        # MuJoCo / G1: `step` and the functional components are two separately fused instances of mjx.step; its iterative
        # contact solver can amplify a 1-ulp difference within a single control step.  Compare with a physical tolerance and
        # judge the fraction of mismatching steps (a wrong wiring mismatches on almost every step, a solver blip on one).
        self.physics = not ENVS[cls["env"]][0].endswith("classic_control")
        self.tol = 1e-3 if self.physics else 1e-5

    # ------------------------------------------------------------------ adversary

    def _greedy(self, env, state, key, cands):
        """State-feedback adversary: among candidate actions take the one whose successor observation lies
        closest to (or furthest beyond) the declared bounds — one-step look-ahead through env.transition.
        On oscillators (MountainCar, Pendulum, Acrobot) this pumps energy and drives the state into its limits."""
        osp = env.observation_space

        def score(a):
            nxt = env.transition(state, a, key=key)
            o = env.observation(nxt, key=key)
            o = jnp.concatenate([jnp.ravel(x).astype(float) for x in jax.tree.leaves(o)])
            lo = jnp.ravel(osp.low) if isinstance(osp, Box) else jnp.full(o.shape, -jnp.inf)
            hi = jnp.ravel(osp.high) if isinstance(osp, Box) else jnp.full(o.shape, jnp.inf)
            bounded = jnp.isfinite(lo) & jnp.isfinite(hi)
            mid, half = (lo + hi) / 2, (hi - lo) / 2
            rel = jnp.where(bounded, jnp.abs(o - jnp.where(bounded, mid, 0.0)) / jnp.where(bounded, half, 1.0), jnp.abs(o) / (1.0 + jnp.abs(o)))
            return jnp.sum(rel * rel)  # energy-like: pumping an oscillator increases it monotonically

        scores = jnp.stack([score(a) for a in cands])
        best = jnp.argmax(scores)
        return jax.tree.map(lambda *xs: jnp.stack(xs)[best], *cands)

    def _action(self, env, key, i, mode, period, state=None):
        sp = env.action_space
        samp = sp.sample(key=key)
        if isinstance(sp, Box):
            # unbounded dimensions (the action space of ClipAction): the "corners" are the infinities themselves — they are
            # members of Box(-inf, inf) and must be clipped onto the inner bounds; `mixed` uses huge finite values
            lo = jnp.where(jnp.isfinite(sp.low), sp.low, -jnp.inf)
            hi = jnp.where(jnp.isfinite(sp.high), sp.high, jnp.inf)
            phase = (i // jnp.maximum(period, 1)) % 2
            alt = jnp.where(phase == 0, lo, hi)
            mixed = jnp.where(jr.bernoulli(key, 0.5, lo.shape), jnp.maximum(lo, -1e30), jnp.minimum(hi, 1e30))
            return lax.switch(jnp.clip(mode, 0, 5), [lambda: samp, lambda: lo + 0 * samp, lambda: hi + 0 * samp, lambda: alt + 0 * samp, lambda: mixed + 0 * samp,
                                                     lambda: self._greedy(env, state, key, [jnp.maximum(lo, -1e30) + 0 * samp, jnp.minimum(hi, 1e30) + 0 * samp, mixed + 0 * samp])])
        if isinstance(sp, Discrete):
            n = sp.n
            phase = (i // jnp.maximum(period, 1)) % 2
            def cruise():
                # CartPole only: bang-bang controller that keeps the pole up while the cart cruises towards a track limit
                # (random or constant actions drop the pole long before the cart position gets anywhere near its bound)
                if self.cls["env"] != "CartPole":
                    return samp
                o = jnp.ravel(env.observation(state, key=key))
                vt = jnp.where(period % 2 == 0, 2.0, -2.0)
                return (o[2] + 0.3 * o[3] + 0.03 * (o[1] - vt) > 0).astype(samp.dtype)

            return lax.switch(jnp.clip(mode, 0, 6), [lambda: samp, lambda: jnp.zeros_like(samp), lambda: jnp.full_like(samp, n - 1),
                                                     lambda: jnp.where(phase == 0, 0, n - 1).astype(samp.dtype), lambda: samp,
                                                     lambda: self._greedy(env, state, key, [jnp.full_like(samp, k) for k in range(n)]), cruise])
        return samp

    def _rollout(self, env, key, mode, period):
        k0, k1 = jr.split(key)
        state, obs0, _ = env.reset(key=k0)

        def body(carry, xs):
            state, = carry
            i, k = xs
            ka, ks, kc = jr.split(k, 3)
            a = self._action(env, ka, i, mode, period, state)
            new_state, obs, reward, term, trunc, info = env.step(state, a, key=ks)
            # functional components for the same state/action (built-in environments are deterministic given state and action)
            succ = env.transition(state, a, key=kc)
            r_c = env.reward(state, a, succ, key=kc)
            t_c = env.terminal(succ, key=kc)
            tr_c = env.truncate(succ)
            o_c = env.observation(succ, key=kc)
            done = term | trunc
            obs_flat = jnp.concatenate([jnp.ravel(x).astype(float) for x in jax.tree.leaves(obs)])
            o_c_flat = jnp.concatenate([jnp.ravel(x).astype(float) for x in jax.tree.leaves(o_c)])
            out = {
                "contains": env.observation_space.contains(obs),
                "nan": jnp.any(jnp.isnan(obs_flat)),
                # Discrete.contains is not traceable (Python `if` on an array): membership computed directly
                "act_in": ((a >= 0) & (a < env.action_space.n)) if isinstance(env.action_space, Discrete) else env.action_space.contains(a),
                "reward": reward, "term": term, "trunc": trunc,
                "r_eq": jnp.abs(reward - r_c) <= self.tol * jnp.maximum(1.0, jnp.abs(r_c)),
                "flags_eq": (term == t_c) & (trunc == tr_c),
                "obs_eq": jnp.where(done, True, jnp.all(jnp.abs(obs_flat - o_c_flat) <= self.tol * jnp.maximum(1.0, jnp.abs(o_c_flat)))),
                "fresh": jnp.where(done, new_state.unwrapped.t == 0, new_state.unwrapped.t > state.unwrapped.t),
                "obs_absmax": jnp.max(jnp.abs(jnp.where(jnp.isfinite(obs_flat), obs_flat, 0.0))),
                "inner_action_ok": spy_flag(succ),
                "at_corner": jnp.any(a == env.action_space.low) | jnp.any(a == env.action_space.high) if isinstance(env.action_space, Box) else jnp.array(False),
            }
            return (new_state,), (out, obs if self.cls.get("keep_obs", False) else None)

        (state,), (outs, _) = lax.scan(body, (state,), (jnp.arange(self.L), jr.split(k1, self.L)))
        return outs, obs0, state

    # ------------------------------------------------------------------ plans

    def gen(self, rng, prop: str) -> dict:
        modes = [0, 0, 1, 2, 3, 3, 4, 5, 5, 5] + ([6, 6, 6, 6] if self.cls["env"] == "CartPole" else [])
        return {"scenario": NAME, "cls": self.cls, "ops": [{"op": "roll", "key": rng.getrandbits(31), "mode": rng.choice(modes), "period": rng.choice([1, 2, 5, 20, 50])}
                                                             for _ in range(rng.randint(1, 2))], "faults": []}

    def shrink_candidates(self, plan: dict):
        if len(plan["ops"]) > 1:
            for i in range(len(plan["ops"])):
                p = copy.deepcopy(plan)
                p["ops"].pop(i)
                yield p

    # ------------------------------------------------------------------ execution

    def execute(self, plan: dict, props: set | None = None) -> RunResult:
        props = set(props or PROPS)
        res = RunResult(Trace())
        tr = res.trace
        env = self.env
        name = self.cls["env"]
        canon = env.observation_space.canonical()
        for op in plan["ops"]:
            outs, obs0, last_state = self._roll(env, jr.key(op["key"]), jnp.asarray(op["mode"]), jnp.asarray(op["period"]))
            outs = jax.device_get(outs)
            L = self.L
            res.steps += L
            res.sim_seconds += L * self.dt
            E = res.events
            n_done = int(np.sum(outs["term"] | outs["trunc"]))
            E["E.term"] += int(np.sum(outs["term"]))
            E["E.trunc"] += int(np.sum(outs["trunc"]))
            E["E.bound_corner"] += int(np.sum(outs["at_corner"]))
            E[f"E.adversary_mode_{op['mode']}"] += 1
            tr.ev("roll", env=name, mode=op["mode"], period=op["period"], dones=n_done, reward_sum=float(np.sum(outs["reward"])), obs_absmax=float(np.max(outs["obs_absmax"])))
            if "C02" in props:
                # static signal types
                r, te, tu = np.asarray(outs["reward"]), np.asarray(outs["term"]), np.asarray(outs["trunc"])
                if r.shape != (L,) or r.dtype.kind != "f":
                    res.fail("C02", "reward_finite_scalar", "reward_not_a_float_scalar", env=name, dtype=str(r.dtype), shape=list(r.shape[1:]))
                elif not np.all(np.isfinite(r)):
                    res.fail("C02", "reward_finite_scalar", "reward_not_finite", env=name, step=int(np.argmax(~np.isfinite(r))), mode=op["mode"])
                else:
                    res.ok("C02", "reward_finite_scalar", L)
                if te.shape != (L,) or tu.shape != (L,) or te.dtype != np.bool_ or tu.dtype != np.bool_:
                    res.fail("C02", "flags_bool_scalar", "flags_not_boolean_scalars", env=name, dtypes=[str(te.dtype), str(tu.dtype)])
                else:
                    res.ok("C02", "flags_bool_scalar", L)
                if np.any(outs["nan"]):
                    res.fail("C02", "obs_nan", "nan_in_observation", env=name, step=int(np.argmax(outs["nan"])), mode=op["mode"], period=op["period"])
                elif not np.all(outs["contains"]):
                    res.fail("C02", "obs_in_space", "observation_outside_declared_space", env=name, step=int(np.argmin(outs["contains"])), mode=op["mode"], period=op["period"], obs_absmax=float(np.max(outs["obs_absmax"])))
                else:
                    res.ok("C02", "obs_in_space", L)
                    res.ok("C02", "obs_nan", L)
                # shape / dtype of the initial observation against canonical()
                lo, lc = jax.tree.leaves(obs0), jax.tree.leaves(canon)
                if jax.tree.structure(obs0) != jax.tree.structure(canon) or any(np.asarray(a).shape != np.asarray(b).shape or np.asarray(a).dtype != np.asarray(b).dtype for a, b in zip(lo, lc)):
                    res.fail("C02", "obs_dtype_shape", "observation_shape_or_dtype_differs_from_canonical", env=name,
                             got=[[list(np.asarray(a).shape), str(np.asarray(a).dtype)] for a in lo], expected=[[list(np.asarray(b).shape), str(np.asarray(b).dtype)] for b in lc])
                elif not bool(env.observation_space.contains(obs0)):
                    res.fail("C02", "obs_in_space", "reset_observation_outside_declared_space", env=name)
                else:
                    res.ok("C02", "obs_dtype_shape")
                if not self.unbounded_action and not np.all(outs["act_in"]):
                    res.fail("C02", "action_sample_in_space", "generated_action_outside_action_space", env=name, mode=op["mode"])
                else:
                    res.ok("C02", "action_sample_in_space", L)
                # a member of the stack's declared action space is ACCEPTED: what reaches the environment is a member of its space
                if not np.all(outs["inner_action_ok"]):
                    res.fail("C02", "action_accepted", "member_of_declared_action_space_reaches_environment_outside_its_space", env=name,
                             step=int(np.argmin(outs["inner_action_ok"])), mode=op["mode"])
                else:
                    res.ok("C02", "action_accepted", L)
            if "C01" in props:
                if self.physics:
                    # tolerate isolated numerical blips of the contact solver (see __init__): at most 5 % of the steps
                    for k in ("r_eq", "obs_eq"):
                        bad = int(np.sum(~np.asarray(outs[k])))
                        if 0 < bad <= max(1, L // 20):
                            res.probes[f"physics_blip_{k}"] += bad
                            outs[k] = np.ones_like(outs[k])
                if not np.all(outs["r_eq"]) or not np.all(outs["flags_eq"]):
                    res.fail("C01", "step_reward" if not np.all(outs["r_eq"]) else "step_flags", "builtin_step_differs_from_functional_components", env=name,
                             step=int(np.argmin(outs["r_eq"] & outs["flags_eq"])))
                elif not np.all(outs["obs_eq"]):
                    res.fail("C01", "step_obs_of_returned_state", "builtin_step_observation_not_of_successor", env=name, step=int(np.argmin(outs["obs_eq"])))
                elif not np.all(outs["fresh"]):
                    res.fail("C01", "step_state_fresh_on_done", "builtin_episode_clock_not_restarted_or_not_advanced", env=name, step=int(np.argmin(outs["fresh"])))
                else:
                    for c in ("step_reward", "step_flags", "step_obs_of_returned_state", "step_state_fresh_on_done"):
                        res.ok("C01", c, L)
            if "C12" in props:
                self._mode_check(res, env, last_state, op)
        return res

    def _mode_check(self, res, env, state, op):
        """The same step executed jitted, vmapped (batch of 2) and — classic control only — eagerly.  Three different
        actions are tried; a mode is reported only if it disagrees on at least two of them (MuJoCo's contact solver can
        amplify a 1-ulp difference between two compiled instances on an isolated step)."""
        rtol, atol = (1e-3, 1e-3) if self.physics else (1e-4, 1e-5)
        bad_count: dict = {}
        tried = 0
        for j in range(3):
            key = jr.key((op["key"] ^ 0x777) + j)
            a = env.action_space.sample(key=key)
            ref = jax.device_get(env.step(state, a, key=key))
            st_b = jax.tree.map(lambda x: jnp.stack([x, x]), state)
            outs_b = jax.device_get(self._vstep(env, st_b, jnp.stack([a, a]), jnp.stack([key, key])))
            modes = [("vmap", jax.tree.map(lambda x: x[1], outs_b))]
            res.faults["F.exec_mode_vmap"] += 1
            if self.cls.get("eager", False) and j == 0:
                with jax.disable_jit():
                    modes.append(("eager", jax.device_get(env.step(state, a, key=key))))
                res.faults["F.exec_mode_eager"] += 1
            tried += 1
            for mode, got in modes:
                la, lb = jax.tree.leaves(got), jax.tree.leaves(ref)
                bad = None
                if len(la) != len(lb):
                    bad = "structure"
                else:
                    for x, y in zip(la, lb):
                        x, y = np.asarray(x), np.asarray(y)
                        if x.shape != y.shape or x.dtype != y.dtype:
                            bad = "shape_or_dtype"
                            break
                        if x.dtype.kind == "f":
                            if not np.allclose(x, y, rtol=rtol, atol=atol, equal_nan=True):
                                bad = "value"
                                break
                        elif not np.array_equal(x, y):
                            bad = "value"
                            break
                if bad:
                    bad_count.setdefault((mode, bad), 0)
                    bad_count[(mode, bad)] += 1
        reported = False
        for (mode, bad), cnt in sorted(bad_count.items()):
            # structural differences and eager differences (tried once) are reported at once; value differences need two of three
            if bad != "value" or mode == "eager" and not self.physics or cnt >= 2:
                res.fail("C12", "mode_equal", f"builtin_{mode}_{bad}_differs", env=self.cls["env"], disagreeing_actions=cnt, of=tried)
                reported = True
            else:
                res.probes["mode_value_blip"] += 1
        if not reported:
            res.ok("C12", "mode_equal", tried)
