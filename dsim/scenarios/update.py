"""S6 `update` — exactly-once delivery of collected samples to the learner.

A rollout in which every sample carries a unique tag in EVERY field is handed to the real
`PPO.train` / `A2C.train` / `REINFORCE.train` with plain SGD and a sample-tagged policy:

* value head = one table entry per tag, initialised at return_i + 1; with the learning rate
  chosen so that each visit halves (v_i - return_i), the number of visits of every sample
  is read from the parameters after training: visits_i = -log2(v_i - return_i);
* log-prob head = a constant table equal to the stored log-probs, so every ratio is 1 and
  the logged approx_kl is 0 iff the log-prob field stayed aligned;
* a misalignment penalty (observation / action / mask / policy-state tags of one row
  disagree) blows the value up and is visible in the parameters;
* the logged policy loss equals -(sum_i visits_i * advantage_i) / (#batches * B) iff the
  advantage field stayed aligned.

Serves C09 (in vivo half).
"""

from __future__ import annotations

import copy
import math
from collections import OrderedDict

import equinox as eqx
import jax
import numpy as np
import optax
from jax import numpy as jnp
from jax import random as jr

from lerax.algorithm import A2C, PPO, REINFORCE
from lerax.buffer import RolloutBuffer
from lerax.policy import AbstractActorCriticPolicy
from lerax.space import Box, Discrete

from ..classes import update as classes  # noqa: F401
from ..kernel import RunResult, Trace
from ..world.policy import SimPolicyState

NAME = "update"
PROPS = {"C09"}
BITS = 8


class TagPolicy(AbstractActorCriticPolicy):
    name = "TagPolicy"
    action_space: object
    observation_space: object
    vtab: jax.Array  # trainable, one entry per sample tag
    lptab: jax.Array  # constant
    # step recorder (through the entropy term, coefficient 1, plain SGD with lr = B): `cnt` goes up by one per gradient step,
    # and a sample visited in step s adds 2^s to its entry of `etab` (steps 0..19) / 2^(s-20) to `etab2` (steps 20..39):
    # after training the tables spell out WHICH gradient steps used each sample, i.e. the composition of every minibatch
    etab: jax.Array
    etab2: jax.Array
    cnt: jax.Array
    inv_b: float = eqx.field(static=True)

    def __init__(self, N: int, B: int = 1):
        self.action_space = Discrete(N + 1)
        self.observation_space = Box(-1e6, 1e6, shape=(2,))
        self.vtab = jnp.zeros((N + 1,))
        self.lptab = jnp.zeros((N + 1,))
        self.etab = jnp.zeros((N + 1,))
        self.etab2 = jnp.zeros((N + 1,))
        self.cnt = jnp.zeros(())
        self.inv_b = 1.0 / B

    def reset(self, *, key):
        return SimPolicyState(jnp.array(0, dtype=int))

    def __call__(self, state, observation, *, key=None, action_mask=None):
        raise NotImplementedError

    def action_and_value(self, state, observation, *, key, action_mask=None):
        raise NotImplementedError

    def value(self, state, observation):
        raise NotImplementedError

    def evaluate_action(self, state, observation, action, *, action_mask=None):
        tag = jnp.round(observation["id"][0]).astype(int)
        tag2 = jnp.round(observation["feat"][1] - 0.25).astype(int)
        mtag = jnp.sum(action_mask.astype(int) * (1 << jnp.arange(BITS)))
        mism = (tag2 != tag) | (jnp.asarray(action).astype(int) != tag) | (state.k != tag) | (mtag != tag)
        value = self.vtab[tag] + 1024.0 * mism.astype(float)
        lp = jax.lax.stop_gradient(self.lptab[tag])
        c = jax.lax.stop_gradient(jnp.round(self.cnt)).astype(int)
        w1 = jnp.where(c < 20, jnp.ldexp(1.0, jnp.clip(c, 0, 19)), 0.0)
        w2 = jnp.where(c >= 20, jnp.ldexp(1.0, jnp.clip(c - 20, 0, 19)), 0.0)
        entropy = self.etab[tag] * w1 + self.etab2[tag] * w2 + self.cnt * self.inv_b
        return state, value, lp, entropy


def tagged_buffer(n: int, T: int, rets, advs, lps) -> RolloutBuffer:
    lead = (n, T) if n > 1 else (T,)
    tags = jnp.arange(1, n * T + 1, dtype=int).reshape(lead)
    f = tags.astype(float)
    obs = OrderedDict([("id", f[..., None]), ("feat", jnp.stack([f * 2, f + 0.25], axis=-1))])
    masks = ((tags[..., None] >> jnp.arange(BITS)) & 1).astype(bool)
    take = lambda tab: jnp.asarray(tab, dtype=float)[tags]  # noqa: E731
    return RolloutBuffer(
        observations=obs, actions=tags, rewards=jnp.zeros(lead), dones=jnp.zeros(lead, dtype=bool), log_probs=take(lps), values=jnp.zeros(lead),
        states=SimPolicyState(tags), action_masks=masks, returns=take(rets), advantages=take(advs),
    )


class Runner:
    def __init__(self, cls: dict):
        self.cls = cls
        n, T = cls["n"], cls["T"]
        self.N = N = n * T
        self.algo_name = cls["algo"]
        vf = 0.5
        if cls["algo"] == "PPO":
            algo = PPO(num_envs=n, num_steps=T, num_epochs=cls["E"], num_batches=cls["nb"], normalize_advantages=False, clip_value_loss=False,
                       entropy_loss_coefficient=1.0, value_loss_coefficient=vf)
            self.B = algo.batch_size
        elif cls["algo"] == "A2C":
            algo = A2C(num_envs=n, num_steps=T, normalize_advantages=False, entropy_loss_coefficient=0.0, value_loss_coefficient=vf)
            self.B = N
        else:
            algo = REINFORCE(num_envs=n, num_steps=T, normalize_advantages=False, value_loss_coefficient=vf)
            self.B = N
        # value loss = vf * mean((v - ret)^2) / 2  =>  dv_i = vf * (v_i - ret_i) / B per visit; lr makes the step (v - ret)/2
        self.lr = 0.5 * self.B / vf
        self.algo = eqx.tree_at(lambda a: a.optimizer, algo, optax.sgd(self.lr), is_leaf=lambda x: isinstance(x, optax.GradientTransformation))
        self.policy0 = TagPolicy(N, self.B)
        # number of equally likely ordered minibatch compositions of one epoch, and the number of trainings after which "every
        # epoch of every training had the same composition" has probability < 1e-12 on correct code
        E, nb = cls.get("E", 1), N // self.B
        self.ways = math.factorial(N) // (math.factorial(self.B) ** nb * math.factorial(N - nb * self.B))
        self.k_needed = math.ceil(12.0 / ((E - 1) * math.log10(self.ways))) if (E >= 2 and self.ways > 1 and cls["algo"] == "PPO") else None
        self._train = eqx.filter_jit(lambda algo, policy, opt_state, buf, key: algo.train(policy, opt_state, buf, key=key))
        self._mkbuf = eqx.filter_jit(lambda rets, advs, lps: tagged_buffer(n, T, rets, advs, lps))

    def gen(self, rng, prop: str) -> dict:
        N = self.N
        rets = [0.0] + [rng.randint(-64, 64) / 8.0 for _ in range(N)]
        advs = [0.0] + [rng.randint(-32, 32) / 4.0 for _ in range(N)]
        lps = [0.0] + [-rng.randint(1, 64) / 16.0 for _ in range(N)]
        n_ops = rng.randint(1, 3)
        if self.cls.get("E", 1) >= 3 and N % self.B and N >= 5:
            n_ops = 10  # enough trainings that "the same remainder dropped in every epoch of every training" has probability < 1e-13
        n_ops = max(n_ops, self.k_needed or 0)
        return {"scenario": NAME, "cls": self.cls, "rets": rets, "advs": advs, "lps": lps, "ops": [{"op": "train", "key": rng.getrandbits(31)} for _ in range(n_ops)], "faults": []}

    def shrink_candidates(self, plan: dict):
        if len(plan["ops"]) > 1:
            for i in range(len(plan["ops"])):
                p = copy.deepcopy(plan)
                p["ops"].pop(i)
                yield p

    def execute(self, plan: dict, props: set | None = None) -> RunResult:
        cls = self.cls
        N, B = self.N, self.B
        res = RunResult(Trace())
        tr = res.trace
        rets = np.asarray(plan["rets"], dtype=np.float64)
        advs = np.asarray(plan["advs"], dtype=np.float64)
        buf = self._mkbuf(jnp.asarray(plan["rets"]), jnp.asarray(plan["advs"]), jnp.asarray(plan["lps"]))
        E = cls.get("E", 1)
        nb = N // B
        used_per_epoch = nb * B
        if N % B:
            res.events["E.remainder_dropped"] += 1
        if E > 1:
            res.events["E.multi_epoch"] += 1
        visit_hist = []
        comp_hist = []  # per training: did every epoch use the identical ordered minibatch composition?
        for op in plan["ops"]:
            policy = eqx.tree_at(lambda p: (p.vtab, p.lptab), self.policy0, (jnp.asarray(rets + 1.0, dtype=float), jnp.asarray(plan["lps"], dtype=float)))
            opt_state = self.algo.optimizer.init(eqx.filter(policy, eqx.is_inexact_array))
            new_policy, _, log = jax.device_get(self._train(self.algo, policy, opt_state, buf, jr.key(op["key"])))
            v = np.asarray(new_policy.vtab, dtype=np.float64)
            if not np.array_equal(np.asarray(new_policy.lptab), np.asarray(policy.lptab)):
                res.fail("C09", "row_intact", "constant_table_moved")
            gap = v[1:] - rets[1:]
            visits = np.full(N, -1, dtype=int)
            bad = []
            for i in range(N):
                g = gap[i]
                if g > 0:
                    k = -math.log2(g)
                    if abs(k - round(k)) < 1e-3 and 0 <= round(k) <= 64:
                        visits[i] = int(round(k))
                        continue
                bad.append(i + 1)
            tr.ev("train", key=op["key"], visits=visits.tolist())
            res.steps += 1
            if bad:
                # a gap that is not a power of two: the row was regressed towards a foreign return,
                # or the misalignment penalty fired
                res.fail("C09", "row_intact", "sample_regressed_towards_foreign_target_or_misaligned_row", samples=bad[:8], gaps=gap[[b - 1 for b in bad[:8]]].tolist())
                continue
            res.ok("C09", "row_intact", N)
            visit_hist.append(visits)
            total = int(visits.sum())
            if np.any(visits > E):
                res.fail("C09", "at_most_once_per_epoch", "sample_used_more_than_once_in_an_epoch", visits=visits.tolist(), epochs=E, B=B)
            else:
                res.ok("C09", "at_most_once_per_epoch")
            if total != E * used_per_epoch:
                res.fail("C09", "used_count", "wrong_number_of_samples_used", got=total, expected=E * used_per_epoch, N=N, B=B, epochs=E, visits=visits.tolist())
            else:
                res.ok("C09", "used_count")
            # logged statistics: approx_kl == 0 (log-prob field aligned), policy loss == -sum(visits*adv)/(E*nb*B)
            if "approx_kl" in log and abs(float(log["approx_kl"])) > 1e-5:
                res.fail("C09", "row_intact", "logprob_field_misaligned", approx_kl=float(log["approx_kl"]))
            if "policy_loss" in log and total == E * used_per_epoch and total > 0:
                if self.algo_name == "PPO":
                    want = -float(np.sum(visits * advs[1:])) / (E * nb * B)
                else:  # A2C / REINFORCE: -mean(log_prob * advantage) over the single full batch
                    want = -float(np.sum(visits * advs[1:] * np.asarray(plan["lps"], dtype=np.float64)[1:])) / (E * nb * B)
                if abs(float(log["policy_loss"]) - want) > 1e-4 * max(1.0, abs(want)):
                    res.fail("C09", "row_intact", "advantage_field_misaligned", got=float(log["policy_loss"]), expected=want)
                else:
                    res.ok("C09", "row_intact")
            # composition of every gradient step, decoded from the step recorder (PPO only: the others take one full batch)
            if self.algo_name == "PPO":
                e1 = np.asarray(new_policy.etab, dtype=np.float64)[1:]
                e2 = np.asarray(new_policy.etab2, dtype=np.float64)[1:]
                S = E * nb
                if np.any(np.abs(e1 - np.round(e1)) > 1e-3) or np.any(np.abs(e2 - np.round(e2)) > 1e-3) or np.any(e1 < 0) or np.any(e2 < 0) or S > 40:
                    res.probes["step_recorder_unreadable"] += 1
                else:
                    bits = np.round(e1).astype(np.int64) | (np.round(e2).astype(np.int64) << 20)
                    M = np.array([[(int(bits[i]) >> s_) & 1 for i in range(N)] for s_ in range(max(S, int(bits.max()).bit_length()))], dtype=int).reshape(-1, N)
                    sizes = M.sum(axis=1)
                    if np.array_equal(M.sum(axis=0), visits) and M.shape[0] == S:
                        if np.any(sizes != B):
                            res.fail("C09", "used_count", "minibatch_of_wrong_size", sizes=sizes.tolist(), B=B)
                        else:
                            res.ok("C09", "used_count")
                        per_epoch = M.reshape(E, nb, N)
                        if np.any(per_epoch.sum(axis=1) > 1):
                            res.fail("C09", "at_most_once_per_epoch", "sample_in_two_minibatches_of_one_epoch", epoch=int(np.argmax(np.any(per_epoch.sum(axis=1) > 1, axis=1))))
                        else:
                            res.ok("C09", "at_most_once_per_epoch")
                        if E >= 2:
                            comp_hist.append(all(np.array_equal(per_epoch[0], per_epoch[e_]) for e_ in range(1, E)))
                        tr.ev("steps", composition=["".join(map(str, row)) for row in M.tolist()])
                    else:
                        res.probes["step_recorder_disagrees_with_visit_count"] += 1
            if E >= 2 and N % B and np.all((visits == 0) | (visits == E)):
                res.probes["same_remainder_dropped_every_epoch"] += 1
            elif E >= 2 and N % B:
                res.probes["remainder_differs_across_epochs"] += 1
        # every epoch visits the data under a fresh shuffle: with N mod B != 0 the dropped remainder must not be
        # the same in every epoch of every one of >= 10 trainings (probability <= (1/N)^((E-1)*10) < 1e-13 on correct code)
        import hashlib

        res.variant = hashlib.sha256(str([v.tolist() for v in visit_hist]).encode()).hexdigest()[:6]
        if E >= 3 and N % B and N >= 5 and len(visit_hist) >= 10:
            if all(np.all((vv == 0) | (vv == E)) for vv in visit_hist):
                res.fail("C09", "fresh_shuffle_per_epoch", "same_samples_dropped_in_every_epoch", trainings=len(visit_hist), epochs=E, N=N, B=B)
            else:
                res.ok("C09", "fresh_shuffle_per_epoch")
        # ... and, remainder or not, the minibatch COMPOSITION must not repeat in every epoch of every training
        if self.k_needed and len(comp_hist) >= self.k_needed:
            if all(comp_hist):
                res.fail("C09", "fresh_shuffle_per_epoch", "every_epoch_replays_the_same_minibatches", trainings=len(comp_hist), epochs=E, N=N, B=B, compositions=self.ways)
            else:
                res.ok("C09", "fresh_shuffle_per_epoch")
        return res
