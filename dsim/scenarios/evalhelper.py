"""`evalhelper` — the evaluation helper `average_reward` on deterministic SimMDPs.

Serves C19c: the helper returns the mean undiscounted return of `num_episodes` independent
episodes, each ending at its first terminal or truncated state or at the step cap.
RefEval enumerates the capped-or-finished episode return from every legal initial state
(the MDP and the key-less table policy are deterministic); `num_episodes * result` must be
a sum of `num_episodes` such values.
"""

from __future__ import annotations

import copy
import itertools
import math
import random

import equinox as eqx
import jax
import numpy as np
from jax import numpy as jnp
from jax import random as jr

from lerax.benchmark import average_reward

from ..classes import evalhelper as classes  # noqa: F401
from ..kernel import RunResult, Trace
from ..ref.mdp import RefMDP, RefTablePolicy, close
from ..world.mdp import comps_of, gen_tables
from ..world.policy import SimTablePolicy, gen_policy_tables, with_policy_tables
from .collect_on import build_env, replace_inner, set_time_limit
from ..world.mdp import with_tables, dummy_tables

NAME = "evalhelper"
PROPS = {"C19"}


class Runner:
    def __init__(self, cls: dict):
        self.cls = cls
        self.kind = cls["kind"]
        self.comps = comps_of(self.kind, tuple(cls["dims"]))
        self.NS = cls["S"] + 1
        self.has_tl = "TimeLimit" in cls["stack"]
        self.env0 = build_env(cls, dummy_tables(cls["S"], self.kind, tuple(cls["dims"])))
        self.policy0 = SimTablePolicy(self.env0, gen_policy_tables(random.Random(0), NS=self.NS, kind=self.kind, comps=self.comps))
        E, cap = cls["episodes"], cls["cap"]
        self._eval = eqx.filter_jit(lambda env, policy, key: average_reward(env, policy, num_episodes=E, max_steps=cap, deterministic=True, key=key))

    def gen(self, rng, prop: str) -> dict:
        cls = self.cls
        tables = gen_tables(rng, S=cls["S"], kind=self.kind, dims=tuple(cls["dims"]),
                            bias={"p_term": rng.choice([0.0, 0.2, 0.4]), "p_trunc": rng.choice([0.0, 0.2]), "p_stochastic": 0.0, "single_init": rng.random() < 0.4})
        ptab = gen_policy_tables(rng, NS=self.NS, kind=self.kind, comps=self.comps)
        # distinct logits per row (unique mode); bounded Gaussian policies act with their mean
        if self.kind not in ("box", "boxscalar"):
            L = len(ptab["logits"][0])
            ptab["logits"] = [[v / 2.0 for v in rng.sample(range(-12, 13), L)] for _ in range(self.NS)]
            ptab["kbias"] = [[0.0] * L for _ in ptab["kbias"]] if rng.random() < 0.5 else [[rng.choice([0.0, 0.125]) * 0 for _ in range(L)] for _ in ptab["kbias"]]
        tl = rng.choice([1, 2, 3, 5, 8]) if self.has_tl else 1000
        if cls["cap"] is None and not self.has_tl:
            raise ValueError("max_steps=None needs a time limit")
        return {"scenario": NAME, "cls": cls, "world": tables, "policy": ptab, "knobs": {"time_limit": tl}, "ops": [{"op": "eval", "key": rng.getrandbits(31)} for _ in range(rng.randint(1, 3))], "faults": []}

    def shrink_candidates(self, plan: dict):
        if len(plan["ops"]) > 1:
            p = copy.deepcopy(plan)
            p["ops"].pop()
            yield p

    def _episode_return(self, mdp: RefMDP, pol: RefTablePolicy, s0: int, cap):
        s, k, ret, steps = s0, 0, 0.0, 0
        kind = "cap"
        while cap is None or steps < cap:
            if self.kind in ("box", "boxscalar"):
                a = np.asarray(pol.params(s, k), dtype=np.float32)
                if self.kind == "boxscalar":
                    a = a[0]
            else:
                comps = pol.probs(s, k, None)
                a = np.asarray([int(np.argmax(p)) for p in comps])
                a = a[0] if self.kind == "discrete" else a
            succ = mdp.successors(s, a)
            s2 = succ[0]
            ret += mdp.reward(s, a, s2)
            steps += 1
            term, trunc = mdp.flags(s2, steps)
            s, k = s2, k + 1
            if term or trunc:
                kind = "both" if term and trunc else ("term" if term else "trunc")
                break
            if steps > 10000:
                raise RuntimeError("episode does not end")
        return ret, steps, kind

    def execute(self, plan: dict, props: set | None = None) -> RunResult:
        cls = self.cls
        res = RunResult(Trace())
        tr = res.trace
        inner = with_tables(self.env0.unwrapped, plan["world"])
        env = set_time_limit(replace_inner(self.env0, inner), int(plan["knobs"]["time_limit"]))
        policy = with_policy_tables(self.policy0, plan["policy"])
        mdp = RefMDP(self.kind, self.comps, plan["world"], time_limit=int(plan["knobs"]["time_limit"]) if self.has_tl else None)
        pol = RefTablePolicy(self.kind, self.comps, plan["policy"])
        E, cap = cls["episodes"], cls["cap"]
        rets = {}
        for s0 in sorted(mdp.init):
            r, steps, kind = self._episode_return(mdp, pol, s0, cap)
            rets[s0] = r
            res.events[f"E.episode_end_{kind}"] += 1
        vals = sorted(set(round(v, 6) for v in rets.values()))
        sums = {round(sum(c), 5) for c in itertools.combinations_with_replacement(vals, E)}
        for op in plan["ops"]:
            got = float(self._eval(env, policy, jr.key(op["key"])))
            tr.ev("eval", key=op["key"], got=got, achievable=vals)
            res.steps += 1
            total = got * E
            if not any(abs(total - s) <= 1e-3 * max(1.0, abs(s)) for s in sums):
                # name the usual suspects
                cause = "mean_not_a_mean_of_episode_returns"
                alt = {}
                for s0 in sorted(mdp.init):
                    alt[s0] = self._episode_return(RefMDP(self.kind, self.comps, {**plan["world"], "trunc": [False] * self.NS}, time_limit=None), pol, s0, cap if cap is not None else 50)[0]
                asums = {round(sum(c), 5) for c in itertools.combinations_with_replacement(sorted(set(round(v, 6) for v in alt.values())), E)}
                if any(abs(total - s) <= 1e-3 * max(1.0, abs(s)) for s in asums):
                    cause = "episode_continues_after_truncation"
                res.fail("C19", "eval_stops_at_first_done_or_cap" if cause != "mean_not_a_mean_of_episode_returns" else "eval_mean_of_episodes", cause,
                         got=got, episodes=E, cap=cap, per_initial_state_returns=rets, time_limit=plan["knobs"]["time_limit"])
            else:
                res.ok("C19", "eval_mean_of_episodes")
                res.ok("C19", "eval_stops_at_first_done_or_cap")
        # "independent episodes": with E >= 2 and start states of different return, an evaluation in which ALL episodes have the same
        # return has probability p_same = sum_v q_v^E (q_v = share of the initial states with return v); n evaluations under different
        # keys all being of that kind has probability p_same^n <= 1e-12 on correct code
        init_list = [int(i) for i in plan["world"]["init"]]
        if E >= 2 and len(init_list) >= 2:
            shares = {}
            for s0 in init_list:
                shares[round(rets[s0], 6)] = shares.get(round(rets[s0], 6), 0.0) + 1.0 / len(init_list)
            p_same = sum(q ** E for q in shares.values())
            if len(shares) >= 2 and p_same < 1.0:
                n = int(math.ceil(12.0 / -math.log10(p_same)))
                if n <= 64:
                    all_same = 0
                    for j in range(n):
                        got = float(self._eval(env, policy, jr.key((plan["ops"][0]["key"] + 7919 * (j + 1)) & 0x7FFFFFFF)))
                        if any(abs(got - v) <= 1e-4 * max(1.0, abs(v)) for v in shares):
                            all_same += 1
                    res.events["E.independence_probe"] += 1
                    tr.ev("independence", evaluations=n, all_episodes_equal=all_same, p_same=round(p_same, 6))
                    if all_same == n:
                        res.fail("C19", "eval_independent_episodes", "every_evaluation_consists_of_identical_episodes", evaluations=n, episodes=E, p_same=p_same)
                    else:
                        res.ok("C19", "eval_independent_episodes", n)
        return res
