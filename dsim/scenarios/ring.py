"""S5 `ring` — model-based stateful test of ReplayBuffer (tagged rows) against RefRing, and
the buffer batching API (flatten_axes / batch_indices / gather / batches / sample) on
tagged RolloutBuffers.

Serves C06 (most recent min(n, C) rows kept, rows intact, sampling only stored rows, no
duplicates, joint sampling of per-node buffers with different fill levels) and the API
half of C09 (flattening is a bijection, index groups are disjoint, rows stay aligned).

Every field of row ``n`` encodes ``n`` (and its node), so torn rows, stale slots and
unwritten slots are recognisable.
"""

from __future__ import annotations

import copy
from collections import OrderedDict, deque

import equinox as eqx
import jax
import numpy as np
from jax import numpy as jnp
from jax import random as jr

from lerax.buffer import ReplayBuffer, RolloutBuffer
from lerax.space import Box, Dict, Discrete, Tuple

from ..classes import ring as classes  # noqa: F401
from ..kernel import RunResult, Trace
from ..world.policy import SimPolicyState

NAME = "ring"
PROPS = {"C06", "C09", "C12"}
BIG = 4096.0
NODE = 1000  # tag = node * NODE + n, n >= 1


def obs_space(kind: str):
    if kind == "box":
        return Box(-BIG * 8, BIG * 8, shape=(2,))
    if kind == "dict":
        return Dict(OrderedDict([("id", Box(-BIG * 8, BIG * 8, shape=(1,))), ("feat", Box(-BIG * 8, BIG * 8, shape=(2,)))]))
    if kind == "tuple":
        return Tuple((Box(-BIG * 8, BIG * 8, shape=(1,)), Discrete(NODE * 64)))
    if kind == "discrete":
        return Discrete(NODE * 64)
    raise ValueError(kind)


def make_obs(kind: str, tag, off: float):
    """Observation carrying ``tag`` (+off in the float parts: 0 for obs, 0.5 for next_obs)."""
    f = jnp.asarray(tag, dtype=float) + off
    if kind == "box":
        return jnp.stack([f, -f])
    if kind == "dict":
        return OrderedDict([("id", f[None]), ("feat", jnp.stack([f * 2, f + 0.25]))])
    if kind == "tuple":
        return (f[None], jnp.asarray(tag, dtype=int) + (1 if off else 0))
    return jnp.asarray(tag, dtype=int) * 2 + (1 if off else 0)


def decode_obs(kind: str, obs, off: float) -> list:
    """All tags encoded in a (batched, NumPy) observation; they must agree."""
    if kind == "box":
        o = np.asarray(obs)
        return [o[..., 0] - off, -o[..., 1] - off]
    if kind == "dict":
        return [np.asarray(obs["id"])[..., 0] - off, np.asarray(obs["feat"])[..., 0] / 2 - off, np.asarray(obs["feat"])[..., 1] - 0.25 - off]
    if kind == "tuple":
        return [np.asarray(obs[0])[..., 0] - off, np.asarray(obs[1]).astype(float) - (1 if off else 0)]
    o = np.asarray(obs).astype(float)
    return [(o - (1 if off else 0)) / 2]


def act_space(kind: str):
    return Discrete(NODE * 64) if kind == "discrete" else Box(-BIG * 8, BIG * 8, shape=(2,))


def make_act(kind: str, tag):
    if kind == "discrete":
        return jnp.asarray(tag, dtype=int)
    f = jnp.asarray(tag, dtype=float)
    return jnp.stack([f, f + 0.125])


def decode_act(kind: str, a) -> list:
    a = np.asarray(a)
    if kind == "discrete":
        return [a.astype(float)]
    return [a[..., 0], a[..., 1] - 0.125]


class Runner:
    def __init__(self, cls: dict):
        self.cls = cls
        self.mode = cls["mode"]
        if self.mode == "replay":
            C, ok, ak = cls["C"], cls["obs_kind"], cls["act_kind"]
            self.empty = ReplayBuffer(C, obs_space(ok), act_space(ak), SimPolicyState(jnp.array(0, dtype=int)))

            def add(buf, tag):
                return buf.add(
                    make_obs(ok, tag, 0.0), make_obs(ok, tag, 0.5), make_act(ak, tag), jnp.asarray(tag, dtype=float) / 4,
                    (tag % 2) == 1, ((tag // 2) % 2) == 1, SimPolicyState(jnp.asarray(tag, dtype=int)), SimPolicyState(jnp.asarray(tag, dtype=int) + 7),
                )

            self._add = eqx.filter_jit(add)
            self._sample = {}
        else:
            B = cls["B"]
            # every documented spelling of the axes to flatten (for a 2-axis buffer): default, ascending, step-major, negative
            self.axes_variants = [None, (0, 1), (1, 0), (-1, 0)] if cls["n"] > 1 else [None, 0, (0,), -1]
            self._flatten = {ax: eqx.filter_jit(lambda b, _ax=ax: b.flatten_axes(_ax)) for ax in self.axes_variants}
            self._batches = {ax: eqx.filter_jit(lambda b, k, _ax=ax: b.batches(B, key=k, batch_axes=_ax)) for ax in self.axes_variants}
            self._indices = eqx.filter_jit(lambda b, k: b.batch_indices(B, key=k))
            self._gather = eqx.filter_jit(lambda b, i: b.gather(i))
            self._rsample = {ax: eqx.filter_jit(lambda bf, k, _ax=ax: bf.sample(max(1, B), key=k, batch_axes=_ax)) for ax in self.axes_variants}
            self._buf, _ = self._tagged_rollout()
            # minibatches over only ONE of the buffer axes (whole trajectories / whole time slices)
            self._partial = {}
            if cls["n"] > 1:
                for ax in (0, 1):
                    size = (cls["n"], cls["T"])[ax]
                    pb = 2 if size >= 2 else 1
                    self._partial[ax] = (pb, eqx.filter_jit(lambda b, k, _ax=ax, _pb=pb: b.batches(_pb, key=k, batch_axes=_ax)))

    # ------------------------------------------------------------------ plans

    def gen(self, rng, prop: str) -> dict:
        cls = self.cls
        if self.mode == "replay":
            C, k = cls["C"], cls["nodes"]
            ops = []
            n_ops = rng.randint(3, 5 * C + 6)
            for _ in range(n_ops):
                u = rng.random()
                if u < 0.7:
                    ops.append({"op": "add", "node": rng.randrange(k), "count": rng.choice([1, 1, 1, 2, C, C + 1])})
                else:
                    ops.append({"op": "sample", "key": rng.getrandbits(31), "frac": rng.choice([0.0, 0.3, 0.5, 1.0, 1.0])})
            ops.append({"op": "sample", "key": rng.getrandbits(31), "frac": 1.0})
            return {"scenario": NAME, "cls": cls, "ops": ops, "faults": []}
        # rollout API
        return {
            "scenario": NAME, "cls": cls, "faults": [],
            "ops": [{"op": rng.choice(["batches", "indices_gather", "sample", "flatten", "shuffle_probe", "partial"]), "key": rng.getrandbits(31), "shuffle": rng.random() < 0.8, "axes": rng.randrange(4)} for _ in range(rng.randint(2, 6))],
        }

    def shrink_candidates(self, plan: dict):
        ops = plan["ops"]
        if len(ops) > 1:
            yield {**copy.deepcopy(plan), "ops": copy.deepcopy(ops[: max(1, len(ops) // 2)])}
            for i in range(min(len(ops), 30)):
                yield {**copy.deepcopy(plan), "ops": copy.deepcopy(ops[:i] + ops[i + 1 :])}
        for i, op in enumerate(ops):
            if op.get("count", 1) > 1:
                p = copy.deepcopy(plan)
                p["ops"][i]["count"] = 1
                yield p

    # ------------------------------------------------------------------ execution

    def execute(self, plan: dict, props: set | None = None) -> RunResult:
        if self.mode == "replay":
            return self._exec_replay(plan, set(props or PROPS))
        return self._exec_rollout(plan, set(props or PROPS))

    # ---- replay buffer -----------------------------------------------------------------

    def _row_tags(self, buf_np, idx) -> list:
        ok, ak = self.cls["obs_kind"], self.cls["act_kind"]
        take = lambda x: jax.tree.map(lambda l: np.asarray(l)[idx], x)  # noqa: E731
        tags = []
        tags += decode_obs(ok, take(buf_np.observations), 0.0)
        tags += decode_obs(ok, take(buf_np.next_observations), 0.5)
        tags += decode_act(ak, take(buf_np.actions))
        tags += [np.asarray(buf_np.rewards)[idx] * 4, np.asarray(buf_np.states.k)[idx].astype(float), np.asarray(buf_np.next_states.k)[idx].astype(float) - 7]
        return tags

    def _exec_replay(self, plan, props) -> RunResult:
        cls = self.cls
        C, k = cls["C"], cls["nodes"]
        res = RunResult(Trace())
        tr = res.trace
        E = res.events
        bufs = [self.empty for _ in range(k)]
        rings = [deque(maxlen=C) for _ in range(k)]
        counts = [0] * k
        for op in plan["ops"]:
            if op["op"] == "add":
                i = op["node"]
                for _ in range(op["count"]):
                    counts[i] += 1
                    tag = i * NODE + counts[i]
                    bufs[i] = self._add(bufs[i], jnp.asarray(tag, dtype=int))
                    rings[i].append(tag)
                    res.steps += 1
                if counts[i] > C:
                    E["E.wrap"] += 1
                if counts[i] > 2 * C:
                    E["E.wrap_multi"] += 1
                tr.ev("add", node=i, count=op["count"], total=counts[i])
                self._check_content(res, jax.device_get(bufs[i]), rings[i], counts[i], i)
                continue
            # ---- sample (jointly over the stacked per-node buffers when k > 1)
            stored = sum(min(c, C) for c in counts)
            if stored == 0:
                continue
            b = max(1, int(round(op["frac"] * stored)))
            if len({min(c, C) for c in counts}) > 1:
                E["E.fill_levels_differ"] += 1
            if any(c < C for c in counts):
                E["E.partial_fill"] += 1
            if b == stored:
                res.probes["batch_equals_stored_count"] += 1
            joint = bufs[0] if k == 1 else jax.tree.map(lambda *xs: jnp.stack(xs), *bufs)
            fn = self._sample.get(b)
            if fn is None:
                fn = self._sample[b] = eqx.filter_jit(lambda buf, key, _b=b: buf.sample(_b, key=key))
            batch = jax.device_get(fn(joint, jr.key(op["key"])))
            tags = self._row_tags(batch, slice(None))
            tr.ev("sample", b=b, stored=stored, tags=np.asarray(tags[0]).astype(int).tolist())
            base = np.asarray(tags[0], dtype=np.float64)
            if base.shape != (b,):
                res.fail("C06", "sample_only_stored", "batch_shape", got=list(base.shape), expected=[b])
                continue
            torn = [j for j in range(b) if any(abs(float(t[j]) - float(base[j])) > 1e-3 for t in tags)]
            dn = np.asarray(batch.dones)
            tm = np.asarray(batch.timeouts)
            for j in range(b):
                n = int(round(float(base[j]))) % NODE
                if j not in torn and (bool(dn[j]) != (n % 2 == 1) or bool(tm[j]) != ((n // 2) % 2 == 1)):
                    torn.append(j)
            if torn:
                res.fail("C06", "sample_row_intact", "fields_of_sampled_row_disagree", rows=torn[:4], tags=[np.asarray(t).tolist() for t in tags])
                if k > 1 and "C12" in props:
                    # per-environment buffers sampled jointly: a row that NO environment stored as such came back
                    res.fail("C12", "per_environment_buffers_independent", "joint_sample_returns_a_row_no_environment_stored", counts=counts)
                continue
            res.ok("C06", "sample_row_intact", b)
            ids = [int(round(float(x))) for x in base]
            live = set()
            for r in rings:
                live |= set(r)
            unstored = [t for t in ids if t not in live]
            if unstored:
                cause = "unwritten_slot_sampled" if any(t % NODE == 0 or t < 0 for t in unstored) else "overwritten_or_foreign_row_sampled"
                res.fail("C06", "sample_only_stored" if k == 1 else "joint_sample_respects_fill", cause, got=ids, stored=sorted(live), counts=counts)
                if k > 1 and "C12" in props:
                    res.fail("C12", "per_environment_buffers_independent", "joint_sample_returns_a_row_no_environment_stored", counts=counts)
            else:
                res.ok("C06", "sample_only_stored", b)
                if k > 1:
                    res.ok("C12", "per_environment_buffers_independent", b)
                if k > 1:
                    res.ok("C06", "joint_sample_respects_fill")
            if len(set(ids)) != len(ids):
                res.fail("C06", "sample_no_duplicate", "row_twice_in_batch", got=ids)
            else:
                res.ok("C06", "sample_no_duplicate")
        return res

    def _check_content(self, res, buf, ring, count, node):
        C = self.cls["C"]
        if int(buf.position) != count:
            res.fail("C06", "current_size", "position_not_incremented_once", got=int(buf.position), expected=count)
        if int(buf.current_size) != min(count, C):
            res.fail("C06", "current_size", "current_size_mismatch", got=int(buf.current_size), expected=min(count, C))
        else:
            res.ok("C06", "current_size")
        tags = self._row_tags(buf, slice(None))
        base = np.asarray(tags[0], dtype=np.float64)
        written = []
        for slot in range(C):
            vals = [float(t[slot]) for t in tags]
            n = int(round(vals[0]))
            unwritten = all(abs(v - d) < 1e-3 for v, d in zip(vals, self._unwritten_vals))
            if unwritten and n % NODE == 0:
                continue
            if any(abs(v - vals[0]) > 1e-3 for v in vals) or bool(np.asarray(buf.dones)[slot]) != ((n % NODE) % 2 == 1) or bool(np.asarray(buf.timeouts)[slot]) != (((n % NODE) // 2) % 2 == 1):
                res.fail("C06", "row_intact", "fields_of_stored_row_disagree", node=node, slot=slot, decoded=vals)
                return
            written.append(n)
        if sorted(written) != sorted(ring):
            missing = sorted(set(ring) - set(written))
            extra = sorted(set(written) - set(ring))
            res.fail("C06", "most_recent_kept", "stored_rows_not_the_most_recent", node=node, stored=sorted(written), expected=sorted(ring), missing=missing, stale=extra)
        else:
            res.ok("C06", "most_recent_kept")
            res.ok("C06", "row_intact", len(written))

    @property
    def _unwritten_vals(self):
        """Decoded tag values of a never-written slot (canonical fills), per field."""
        if not hasattr(self, "_uw"):
            t = self._row_tags(jax.device_get(self.empty), slice(None))
            self._uw = [float(np.asarray(x)[0]) for x in t]
        return self._uw

    # ---- rollout buffer API ------------------------------------------------------------

    def _tagged_rollout(self):
        cls = self.cls
        n, T, ok, ak = cls["n"], cls["T"], cls["obs_kind"], cls["act_kind"]
        lead = (n, T) if n > 1 else (T,)
        tags = jnp.arange(1, n * T + 1, dtype=int).reshape(lead)
        mk = lambda f: jax.vmap(jax.vmap(f))(tags) if n > 1 else jax.vmap(f)(tags)  # noqa: E731
        bits = 8
        return RolloutBuffer(
            observations=mk(lambda t: make_obs(ok, t, 0.0)), actions=mk(lambda t: make_act(ak, t)), rewards=tags.astype(float) / 4,
            dones=(tags % 2) == 1, log_probs=-tags.astype(float) / 8, values=tags.astype(float) / 2, states=SimPolicyState(tags),
            action_masks=mk(lambda t: ((t >> jnp.arange(bits)) & 1).astype(bool)), returns=tags.astype(float) * 2, advantages=tags.astype(float) * 3,
        ), tags

    def _rollout_tags(self, b) -> list:
        ok, ak = self.cls["obs_kind"], self.cls["act_kind"]
        b = jax.device_get(b)
        masks = np.asarray(b.action_masks)
        mtag = (masks.astype(int) * (1 << np.arange(masks.shape[-1]))).sum(-1).astype(float)
        return decode_obs(ok, b.observations, 0.0) + decode_act(ak, b.actions) + [
            np.asarray(b.rewards) * 4, -np.asarray(b.log_probs) * 8, np.asarray(b.values) * 2, np.asarray(b.states.k).astype(float),
            mtag, np.asarray(b.returns) / 2, np.asarray(b.advantages) / 3,
        ]

    def _exec_rollout(self, plan, props) -> RunResult:
        cls = self.cls
        n, T, B = cls["n"], cls["T"], cls["B"]
        N = n * T
        res = RunResult(Trace())
        tr = res.trace
        buf = self._buf
        if N % B:
            res.events["E.remainder_dropped"] += 1
        for op in plan["ops"]:
            key = jr.key(op["key"]) if op["shuffle"] else None
            kind = op["op"]
            ax = self.axes_variants[op.get("axes", 0) % len(self.axes_variants)]
            if ax not in (None, (0, 1), 0, (0,)):
                res.events["E.non_default_axis_order"] += 1
            if kind == "flatten":
                flat = self._flatten[ax](buf)
                tags = self._rollout_tags(flat)
                self._no_env_mixing(res, props, tags, "flatten")
                self._aligned(res, tags, "flatten_bijection", expect_set=set(range(1, N + 1)), expect_len=N)
                tr.ev("flatten", tags=np.asarray(tags[0]).astype(int).tolist())
            elif kind == "batches":
                out = self._batches[ax](buf, key)
                tags = self._rollout_tags(out)
                self._no_env_mixing(res, props, tags, "batches")
                tr.ev("batches", tags=np.asarray(tags[0]).astype(int).tolist())
                self._partition(res, tags, N, B)
            elif kind == "indices_gather":
                flat = self._flatten[ax](buf)
                idx = self._indices(flat, key)
                idx_np = np.asarray(idx)
                tr.ev("indices", idx=idx_np.tolist())
                if idx_np.shape != (N // B, B) or len(set(idx_np.reshape(-1).tolist())) != idx_np.size or idx_np.min(initial=0) < 0 or idx_np.max(initial=0) >= N:
                    res.fail("C09", "at_most_once_per_epoch", "index_groups_not_disjoint_or_wrong_shape", shape=list(idx_np.shape), idx=idx_np.tolist(), N=N, B=B)
                    continue
                res.ok("C09", "at_most_once_per_epoch")
                res.ok("C09", "used_count")
                flat_tags = np.asarray(self._rollout_tags(flat)[0])
                for row in idx_np:
                    g = self._gather(flat, jnp.asarray(row))
                    tags = self._rollout_tags(g)
                    if not self._aligned(res, tags, "row_intact", expect_len=B):
                        break
                    if not np.array_equal(np.asarray(tags[0]).round().astype(int), flat_tags[row].round().astype(int)):
                        res.fail("C09", "row_intact", "gather_returned_other_rows", want=flat_tags[row].tolist(), got=np.asarray(tags[0]).tolist())
                        break
            elif kind == "partial":
                if self._partial:
                    pax = op.get("axes", 0) % 2
                    pb, fn = self._partial[pax]
                    out = fn(buf, key)
                    tags = self._rollout_tags(out)
                    base = np.asarray(tags[0], dtype=np.float64)
                    size, other = ((n, T) if pax == 0 else (T, n))
                    tr.ev("partial", axis=pax, shape=list(base.shape))
                    res.events["E.partial_axis_batches"] += 1
                    if base.shape != (size // pb, pb, other):
                        res.fail("C09", "used_count", "wrong_batch_grid_shape_for_partial_axes", got=list(base.shape), expected=[size // pb, pb, other], axis=pax)
                    elif any(np.any(np.abs(np.asarray(t, dtype=np.float64) - base) > 1e-3) or np.any(~np.isfinite(np.asarray(t, dtype=np.float64))) for t in tags):
                        res.fail("C09", "row_intact", "fields_of_row_disagree_in_partial_axis_batches", axis=pax)
                    else:
                        ids = base.round().astype(int).reshape(-1).tolist()
                        if len(set(ids)) != len(ids) or not set(ids) <= set(range(1, N + 1)):
                            res.fail("C09", "at_most_once_per_epoch", "slice_repeated_or_foreign_in_partial_axis_batches", axis=pax, got=ids[:32])
                        else:
                            res.ok("C09", "at_most_once_per_epoch")
                            res.ok("C09", "used_count")
                            res.ok("C09", "row_intact")
            elif kind == "shuffle_probe":
                # a keyed epoch shuffles SAMPLES, not just the order of fixed contiguous minibatches: with three keys the
                # membership of the minibatches equals the sequential partition every time with probability < 1e-15 (N >= 8, >= 2 batches)
                if N >= 8 and N // B >= 2 and B >= 2:
                    flat = self._flatten[None](buf)
                    seq = {frozenset(range(r * B, (r + 1) * B)) for r in range(N // B)}
                    same = 0
                    for j in range(3):
                        idx = np.asarray(self._indices(flat, jr.key(op["key"] + 7919 * j)))
                        if {frozenset(int(x) for x in row) for row in idx} == seq:
                            same += 1
                    tr.ev("shuffle_probe", same=same)
                    if same == 3:
                        res.fail("C09", "fresh_shuffle_per_epoch", "minibatch_membership_never_shuffled", N=N, B=B)
                    else:
                        res.ok("C09", "fresh_shuffle_per_epoch")
                    # the same through the one-call API `batches(batch_size, key=...)`: its documented key must shuffle as well
                    seq_tags = {frozenset(range(r * B + 1, (r + 1) * B + 1)) for r in range(N // B)}
                    same_b = 0
                    for j in range(3):
                        out = self._batches[None](buf, jr.key(op["key"] + 104729 * (j + 1)))
                        ids = np.asarray(self._rollout_tags(out)[0]).round().astype(int)
                        if ids.shape == (N // B, B) and {frozenset(int(x) for x in row) for row in ids} == seq_tags:
                            same_b += 1
                    if same_b == 3:
                        res.fail("C09", "fresh_shuffle_per_epoch", "batches_ignores_its_key", N=N, B=B)
                    else:
                        res.ok("C09", "fresh_shuffle_per_epoch")
            else:  # sample
                b = max(1, B)
                out = self._rsample[ax](buf, jr.key(op["key"]))
                tags = self._rollout_tags(out)
                self._no_env_mixing(res, props, tags, "sample")
                tr.ev("sample", tags=np.asarray(tags[0]).astype(int).tolist())
                if self._aligned(res, tags, "row_intact", expect_len=b):
                    ids = np.asarray(tags[0]).round().astype(int).tolist()
                    if len(set(ids)) != len(ids) or not set(ids) <= set(range(1, N + 1)):
                        res.fail("C09", "at_most_once_per_epoch", "sample_with_duplicates_or_foreign_rows", got=ids)
            res.steps += 1
        return res

    def _no_env_mixing(self, res, props, tags, where: str) -> None:
        """C12: every row of a view of an N-environment rollout takes all of its fields from ONE environment."""
        n, T = self.cls["n"], self.cls["T"]
        if "C12" not in props or n <= 1:
            return
        envs = []
        for t in tags:
            t = np.asarray(t, dtype=np.float64).reshape(-1)
            if not np.all(np.isfinite(t)):
                return  # garbage rows are C09's business
            envs.append((np.round(t).astype(int) - 1) // T)
        if len({e.shape for e in envs}) != 1:
            return
        E = np.stack(envs)
        mixed = np.nonzero(np.any(E != E[0], axis=0))[0]
        if mixed.size:
            res.fail("C12", "rows_do_not_mix_environments", "fields_of_one_row_come_from_different_environments", where=where,
                     row=int(mixed[0]), envs_of_fields=E[:, mixed[0]].tolist())
        else:
            res.ok("C12", "rows_do_not_mix_environments", int(E.shape[1]))

    def _aligned(self, res, tags, check, expect_set=None, expect_len=None) -> bool:
        base = np.asarray(tags[0], dtype=np.float64).reshape(-1)
        for t in tags:
            t = np.asarray(t, dtype=np.float64).reshape(-1)
            if t.shape != base.shape or np.any(np.abs(t - base) > 1e-3):
                res.fail("C09", "row_intact" if check != "flatten_bijection" else "flatten_bijection", "fields_of_row_disagree", tags=[np.asarray(x).reshape(-1).tolist() for x in tags][:4])
                return False
        ids = base.round().astype(int).tolist()
        if expect_len is not None and len(ids) != expect_len:
            res.fail("C09", check, "wrong_number_of_rows", got=len(ids), expected=expect_len)
            return False
        if expect_set is not None and (set(ids) != expect_set or len(set(ids)) != len(ids)):
            res.fail("C09", check, "samples_lost_or_duplicated", got=sorted(ids))
            return False
        res.ok("C09", check)
        return True

    def _partition(self, res, tags, N, B):
        base = np.asarray(tags[0], dtype=np.float64)
        if base.shape != (N // B, B):
            res.fail("C09", "used_count", "wrong_batch_grid_shape", got=list(base.shape), expected=[N // B, B])
            return
        for t in tags:
            if np.any(np.abs(np.asarray(t, dtype=np.float64) - base) > 1e-3):
                res.fail("C09", "row_intact", "fields_of_row_disagree_in_batches")
                return
        ids = base.round().astype(int).reshape(-1).tolist()
        if len(set(ids)) != len(ids):
            res.fail("C09", "at_most_once_per_epoch", "sample_in_two_minibatches", got=ids)
        elif not set(ids) <= set(range(1, N + 1)):
            res.fail("C09", "at_most_once_per_epoch", "foreign_rows", got=ids)
        elif len(ids) != (N // B) * B:
            res.fail("C09", "used_count", "wrong_number_of_used_samples", got=len(ids), expected=(N // B) * B)
        else:
            res.ok("C09", "at_most_once_per_epoch")
            res.ok("C09", "used_count")
            res.ok("C09", "row_intact")
