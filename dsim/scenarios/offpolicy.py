"""S4 `offpolicy` — the real DQN / SAC `reset` (warm-up) and `iteration` on SimMDP.

Serves C05 (stored transitions), C06 (ring buffer in vivo), C07 (TD targets observed in the
running learner), C10 (iteration counter, target-network schedule, actor/alpha gating),
C12 (node isolation by perturbation), C19a (logger statistics).

DQN: SimQTable online/target tables, optimiser replaced by plain SGD (public field), batch =
whole buffer (so no sampled index has to be predicted).  SAC: SimSACPolicy behaviour policy
(actions may leave the bounds -> clipping visible), critics in SACState replaced after
`reset` by table critics with an SGD optimiser.
"""

from __future__ import annotations

import copy
import random

import equinox as eqx
import jax
import numpy as np
import optax
from jax import numpy as jnp
from jax import random as jr

from lerax.algorithm import DQN, SAC, AbstractOffPolicyAlgorithm
from lerax.policy import AbstractSACPolicy

from ..classes import offpolicy as classes  # noqa: F401
from ..kernel import RunResult, Trace
from ..ref.mdp import RefMDP, close
from ..ref.offpolicy import OffNode, argmax_gap, check_node_buffer, dqn_reference_step
from ..world.mdp import SimMDP, comps_of, dummy_tables, gen_tables, np_obs_ids, obs_id, with_tables
from ..world.observers import SpyCallback, SpyState
from ..world.policy import SimPolicyState, SimQTable
from .collect_on import box_bounds, build_env, replace_inner, set_time_limit, tl_count_of, _set_unwrapped_s

NAME = "offpolicy"
PROPS = {"C05", "C06", "C07", "C10", "C12", "C19"}


class SimSACBehaviour(AbstractSACPolicy):
    """SAC policy for the simulator.

    Behaviour (`__call__`): action = loc[s] + amp[s] * u, u ~ U(-1, 1) per dimension — may
    leave the bounds (clipping becomes visible).  Update interface (`action_and_log_prob`):
    a *deterministic* law: next action nact[s] and log-probability nlp[s], plus a learnable
    shift `theta` so that the actor loss has a gradient (the actor is then observably
    updated or not).
    """

    name = "SimSACBehaviour"
    action_space: object
    observation_space: object
    loc: jax.Array
    amp: jax.Array
    nact: jax.Array
    nlp: jax.Array
    theta: jax.Array

    def __init__(self, env, tables):
        self.action_space = env.action_space
        self.observation_space = env.observation_space
        self.loc = jnp.asarray(tables["loc"], dtype=float)
        self.amp = jnp.asarray(tables["amp"], dtype=float)
        self.nact = jnp.asarray(tables["nact"], dtype=float)
        self.nlp = jnp.asarray(tables["nlp"], dtype=float)
        self.theta = jnp.asarray(tables["theta"], dtype=float)

    def reset(self, *, key):
        return SimPolicyState(jnp.array(0, dtype=int))

    def _next(self, state):
        return None if state is None else SimPolicyState(state.k + 1)

    def __call__(self, state, observation, *, key=None, action_mask=None):
        s = obs_id(observation)
        u = 0.0 if key is None else jr.uniform(key, self.loc[s].shape, minval=-1.0, maxval=1.0)
        a = self.loc[s] + self.amp[s] * u
        if not self.action_space.shape:
            a = a[0]
        return self._next(state), a

    def action_distribution(self, state, observation):
        raise NotImplementedError

    def action_and_log_prob(self, state, observation, *, key):
        s = obs_id(observation)
        # tables are constants of the simulation: only `theta` is trainable
        a = jax.lax.stop_gradient(self.nact[s])
        if not self.action_space.shape:
            a = a[0]
        lp = jax.lax.stop_gradient(self.nlp[s]) + self.theta
        return self._next(state), a, lp


class NoUpdateLearner(AbstractOffPolicyAlgorithm):
    """Minimal off-policy learner on the documented hooks: collects experience, never changes the policy."""

    optimizer: optax.GradientTransformation
    buffer_size: int
    gamma: float
    learning_starts: int
    num_envs: int
    num_steps: int
    batch_size: int

    def __init__(self, *, buffer_size, learning_starts, num_envs, num_steps, batch_size):
        self.optimizer = optax.sgd(0.0)
        self.buffer_size = buffer_size
        self.gamma = 0.9
        self.learning_starts = learning_starts
        self.num_envs = num_envs
        self.num_steps = num_steps
        self.batch_size = batch_size

    def per_step(self, step_state):
        return step_state

    def per_iteration(self, state):
        return state

    def train(self, policy, opt_state, buffer, *, key):
        return policy, opt_state, {}


class TableCritic(eqx.Module):
    """Q(s, a) = q[s] + w * sum(a): tabular in the state, linear in the action."""

    q: jax.Array
    w: jax.Array

    def __call__(self, observation, action):
        return self.q[obs_id(observation)] + self.w * jnp.sum(jnp.asarray(action, dtype=float))


def gen_sac_tables(rng, NS: int, d: int) -> dict:
    big = rng.random() < 0.6
    return {
        "loc": [[rng.randint(-8, 8) / 8.0 for _ in range(d)] for _ in range(NS)],
        "amp": [[rng.choice([1.0, 2.0, 3.0]) if big else rng.choice([0.125, 0.25]) for _ in range(d)] for _ in range(NS)],
        "nact": [[rng.randint(-8, 8) / 8.0 for _ in range(d)] for _ in range(NS)],
        "nlp": [rng.randint(-16, 0) / 8.0 for _ in range(NS)],
        "theta": 0.0,
    }


def gen_q_table(rng, NS: int, A: int) -> list:
    rows = []
    for _ in range(NS):
        vals = rng.sample(range(-16, 17), A)  # distinct within a row: arg-max is unambiguous
        rows.append([v / 4.0 for v in vals])
    return rows


class Runner:
    def __init__(self, cls: dict):
        self.cls = cls
        self.kind = cls["kind"]
        self.comps = comps_of(self.kind, tuple(cls["dims"]))
        self.NS = cls["S"] + 1
        self.n = cls["n"]
        self.cap = cls["buffer"] // cls["n"] if cls["n"] > 1 else cls["buffer"]
        self.has_tl = "TimeLimit" in cls["stack"]
        tables = dummy_tables(cls["S"], self.kind, tuple(cls["dims"]))
        self.env0 = build_env(cls, tables)
        rng = random.Random(0)
        self.sgd_lr = 0.5
        if cls["algo"] == "DQN":
            self.policy0 = SimQTable(self.env0, gen_q_table(rng, self.NS, self.comps[0]), epsilon=cls["epsilon"])
            algo = DQN(
                buffer_size=cls["buffer"], gamma=jnp.array(0.9), learning_starts=cls["starts"], num_envs=cls["n"], num_steps=cls["T"],
                batch_size=cls["batch"], target_update_interval=cls["interval"],
            )
            if cls.get("sgd", True):
                algo = eqx.tree_at(lambda a: a.optimizer, algo, optax.sgd(self.sgd_lr), is_leaf=lambda x: isinstance(x, optax.GradientTransformation))
            if cls.get("base_learner"):
                # a learner built on the documented extension points only (per_step / per_iteration / train): it INHERITS
                # reset / iteration / collect_* from AbstractOffPolicyAlgorithm, which DQN and SAC partly override
                algo = NoUpdateLearner(buffer_size=cls["buffer"], learning_starts=cls["starts"], num_envs=cls["n"], num_steps=cls["T"], batch_size=cls["batch"])
        else:
            d = len(self.comps) if self.kind == "box" else 1
            self.d = d
            self.policy0 = SimSACBehaviour(self.env0, gen_sac_tables(rng, self.NS, d))
            algo = SAC(
                buffer_size=cls["buffer"], gamma=jnp.array(0.9), learning_starts=cls["starts"], num_envs=cls["n"], num_steps=cls["T"],
                batch_size=cls["batch"], tau=jnp.array(0.25), policy_frequency=cls["pfreq"], autotune=cls["autotune"], initial_alpha=0.2,
                q_width_size=4, q_depth=1, **({"alpha_lr": cls["alpha_lr"]} if "alpha_lr" in cls else {}),
            )
            object.__setattr__(algo, "q_optimizer", optax.sgd(self.sgd_lr))
        self.algo0 = algo
        self.cb0 = SpyCallback(alpha=jnp.array(0.9))
        self._reset = eqx.filter_jit(lambda algo, env, policy, key, cb: algo.reset(env, policy, key=key, callback=cb))
        self._iter = eqx.filter_jit(lambda algo, state, key, cb: algo.iteration(state, key=key, callback=cb))

    # ------------------------------------------------------------------ plans

    def gen(self, rng, prop: str) -> dict:
        cls = self.cls
        mode = rng.choice(["plain", "term_heavy", "trunc_heavy", "both_heavy", "quiet"])
        bias = {"plain": {}, "term_heavy": {"p_term": 0.5, "p_trunc": 0.0}, "trunc_heavy": {"p_term": 0.0, "p_trunc": 0.3},
                "both_heavy": {"p_term": 0.4, "p_trunc": 0.4}, "quiet": {"p_term": 0.0, "p_trunc": 0.0}}[mode]
        tables = gen_tables(rng, S=cls["S"], kind=self.kind, dims=tuple(cls["dims"]), bias=bias)
        if mode == "both_heavy":
            for s in range(cls["S"]):
                if tables["term"][s] and rng.random() < 0.5:
                    tables["trunc"][s] = True
        n_iter = rng.randint(1, cls.get("max_iter", 6))
        plan = {
            "scenario": NAME, "cls": cls, "mode": mode,
            "knobs": {"gamma": rng.choice([0.5, 0.75, 0.9, 1.0]), "alpha": rng.choice([0.9, 0.5, 1.0]),
                      "time_limit": rng.choice([1, 2, 3, 3, 4, 6, 1000])},
            "world": tables,
            "ops": [{"op": "reset", "key": rng.getrandbits(31)}] + [{"op": "iter", "key": rng.getrandbits(31)} for _ in range(n_iter)],
            "faults": [],
        }
        if cls["algo"] == "DQN":
            plan["policy"] = {"q": gen_q_table(rng, self.NS, self.comps[0])}
            if rng.random() < 0.5:
                # Q-values that depend on the policy state: greedy actions at s' differ between the pre-step and the successor state
                plan["policy"]["qbias"] = [[0.0] * self.comps[0]] + [[rng.randint(-12, 12) / 4.0 for _ in range(self.comps[0])] for _ in range(2)]
            if cls.get("iid_probe"):
                plan["policy"] = {"q": [[0.0] * self.comps[0] for _ in range(self.NS)]}  # epsilon = 1: uniform actions, state-independent
        else:
            plan["policy"] = gen_sac_tables(rng, self.NS, self.d)
            if cls.get("iid_probe"):
                plan["policy"]["loc"] = [[0.0] * self.d for _ in range(self.NS)]
                plan["policy"]["amp"] = [[1.0] * self.d for _ in range(self.NS)]
            plan["critics"] = {
                "q1": [rng.randint(-16, 16) / 4.0 for _ in range(self.NS)], "q2": [rng.randint(-16, 16) / 4.0 for _ in range(self.NS)],
                "w1": rng.choice([0.0, 0.5, -0.5]), "w2": rng.choice([0.0, 0.25]),
            }
            plan["knobs"]["tau"] = rng.choice([0.25, 0.5, 0.005, 1.0])
            if rng.random() < 0.6:
                plan["knobs"]["log_alpha0"] = rng.choice([-3.0, -1.0, 0.0, 0.75])   # exp(.) != the constructor's initial_alpha = 0.2
        if cls["n"] > 1 and (prop == "C12" or rng.random() < 0.15):
            plan["faults"].append({"kind": "node_perturb", "node": rng.randrange(cls["n"]), "at_op": rng.randint(1, n_iter), "what": "start_state", "to": rng.randrange(cls["S"])})
        return plan

    def shrink_candidates(self, plan: dict):
        S = self.cls["S"]

        def variant(fn):
            p = copy.deepcopy(plan)
            fn(p)
            return p if p != plan else None

        cands = []
        if len([o for o in plan["ops"] if o["op"] == "iter"]) > 1:
            cands.append(lambda p: p["ops"].pop())
        if plan.get("faults"):
            cands.append(lambda p: p["faults"].clear())
        cands.append(lambda p: p["knobs"].__setitem__("time_limit", 1000))
        cands.append(lambda p: p["world"].__setitem__("term", [False] * (S + 1)))
        cands.append(lambda p: p["world"].__setitem__("trunc", [False] * (S + 1)))

        def determinise(p):
            for row in p["world"]["succ"]:
                for br in row:
                    br[1] = br[0]
            p["world"]["p_branch"] = 0.0

        cands.append(determinise)
        cands.append(lambda p: p["world"].__setitem__("rew_w", [0.0] * (S + 1)))
        cands.append(lambda p: p["world"].__setitem__("init", [p["world"]["init"][0]] * len(p["world"]["init"])))
        cands.append(lambda p: p["knobs"].__setitem__("gamma", 1.0))
        cands.append(lambda p: p["knobs"].__setitem__("alpha", 1.0))
        for fn in cands:
            v = variant(fn)
            if v is not None:
                yield v

    # ------------------------------------------------------------------ execution

    def _materialise(self, plan):
        kn = plan["knobs"]
        inner = with_tables(self.env0.unwrapped, plan["world"])
        env = set_time_limit(replace_inner(self.env0, inner), int(kn["time_limit"]))
        algo = eqx.tree_at(lambda a: a.gamma, self.algo0, jnp.array(kn["gamma"], dtype=float))
        if self.cls["algo"] == "DQN":
            A = self.comps[0]
            policy = eqx.tree_at(lambda p: (p.q, p.qbias), self.policy0, (jnp.asarray(plan["policy"]["q"], dtype=float), jnp.asarray(plan["policy"].get("qbias", [[0.0] * A] * 3), dtype=float)))
        else:
            t = plan["policy"]
            fields = ["loc", "amp", "nact", "nlp", "theta"]
            policy = eqx.tree_at(lambda p: [getattr(p, f) for f in fields], self.policy0, [jnp.asarray(t[f], dtype=float) for f in fields])
            algo = eqx.tree_at(lambda a: a.tau, algo, jnp.array(kn["tau"], dtype=float))
        cb = eqx.tree_at(lambda c: c.inner.alpha, self.cb0, jnp.array(kn["alpha"], dtype=float))
        return env, policy, algo, cb

    def _install_critics(self, state, plan):
        c = plan["critics"]
        qf1 = TableCritic(jnp.asarray(c["q1"], dtype=float), jnp.asarray(c["w1"], dtype=float))
        qf2 = TableCritic(jnp.asarray(c["q2"], dtype=float), jnp.asarray(c["w2"], dtype=float))
        q_opt_state = self.algo0.q_optimizer.init((eqx.filter(qf1, eqx.is_inexact_array), eqx.filter(qf2, eqx.is_inexact_array)))
        state = eqx.tree_at(lambda s: (s.qf1, s.qf2, s.qf1_target, s.qf2_target, s.q_opt_state), state, (qf1, qf2, qf1, qf2, q_opt_state))
        if "log_alpha0" in plan["knobs"]:
            # a run continued from a state whose temperature is not the constructor's initial value (e.g. autotuned earlier, now frozen)
            state = eqx.tree_at(lambda s: s.log_alpha, state, jnp.asarray(plan["knobs"]["log_alpha0"], dtype=state.log_alpha.dtype).reshape(jnp.shape(state.log_alpha)))
        return state

    def _node_bufs(self, state):
        n, cap = self.n, self.cap
        ss = jax.device_get(state.step_state)
        b = ss.buffer

        def lead(x):
            x = np.asarray(x)
            return x[None] if n == 1 else x

        def rows_of(obs):
            obs = jax.tree.map(lead, obs)
            ids = np_obs_ids(obs)
            k = self.cls["obs_kind"]
            if k == "box":
                rows = np.asarray(obs)
            elif k == "dict":
                rows = np.concatenate([obs["id"], obs["feat"]], axis=-1)
            elif k == "tuple":
                rows = np.concatenate([obs[0], obs[1]], axis=-1)
            else:
                rows = self._cur_obs[np.clip(ids, 0, self.NS - 1)]
            return ids, rows

        oi, orow = rows_of(b.observations)
        ni, nrow = rows_of(b.next_observations)
        tl = tl_count_of(ss.env_state)
        cbs = ss.callback_state
        out = []
        for i in range(n):
            out.append({
                "position": lead(b.position)[i], "obs_ids": oi[i], "obs_rows": orow[i], "next_ids": ni[i], "next_rows": nrow[i],
                "actions": lead(b.actions)[i], "rewards": lead(b.rewards)[i], "dones": lead(b.dones)[i], "timeouts": lead(b.timeouts)[i],
                "k": lead(b.states.k)[i], "next_k": lead(b.next_states.k)[i],
                "env_s": lead(ss.env_state.unwrapped.s)[i], "env_t": lead(ss.env_state.unwrapped.t)[i],
                "tl_count": None if tl is None else lead(tl)[i], "pol_k_after": lead(ss.policy_state.k)[i],
                "log_step": lead(cbs.step)[i], "log_ep_ret": lead(cbs.episode_return)[i], "log_ep_len": lead(cbs.episode_length)[i],
                "log_avg_ret": lead(cbs.average_return)[i], "log_avg_len": lead(cbs.average_length)[i],
            })
        return out

    def execute(self, plan: dict, props: set | None = None) -> RunResult:
        props = set(props or PROPS)
        cls = self.cls
        n, cap = self.n, self.cap
        kn = plan["knobs"]
        res = RunResult(Trace())
        tr = res.trace
        env, policy, algo, cb = self._materialise(plan)
        self._cur_obs = np.asarray(plan["world"]["obs"])
        mdp = RefMDP(self.kind, self.comps, plan["world"], *box_bounds(self.cls), time_limit=int(kn["time_limit"]) if self.has_tl else None)
        self._term_table = [bool(x) for x in plan["world"]["term"]]
        self._mdp = mdp
        gamma, alpha = float(kn["gamma"]), float(kn["alpha"])
        faults = {f["at_op"]: f for f in plan.get("faults", [])}
        state = None
        self._gate_hist = []
        nodes: list[OffNode] = []
        expected_pos = 0
        snaps = None
        for oi, op in enumerate(plan["ops"]):
            if op["op"] == "reset":
                tr.ev("op", op="reset", key=op["key"])
                state = self._reset(algo, env, policy, jr.key(op["key"]), cb)
                if cls["algo"] == "SAC":
                    state = self._install_critics(state, plan)
                bufs = self._node_bufs(state)
                expected_pos = cls["starts"]
                nodes = []
                for i in range(n):
                    # the first stored observation is the start state of the chain
                    first = int(bufs[i]["obs_ids"][0]) if cls["starts"] > 0 else int(bufs[i]["env_s"])
                    node = OffNode(cur_s=first)
                    if "C05" in props and first not in mdp.init and cls["starts"] <= cap:
                        res.fail("C05", "chain_after_done_fresh", "first_state_not_initial", node=i, got=first)
                    nodes.append(node)
                    check_node_buffer(res, props, mdp, node, i, bufs[i], cap, expected_pos, alpha, trace=tr)
                if "C05" in props:
                    res.ok("C05", "warmup_count")
                if "C12" in props and cls.get("iid_probe") and n > 1:
                    self._iid_check(res, bufs, 0, cls["starts"], "warm-up")
                if "C10" in props and int(state.iteration_count) != 0:
                    res.fail("C10", "iteration_counter", "not_zero_after_reset", got=int(state.iteration_count))
                snaps = self._snapshot(state)
                continue
            tr.ev("op", op="iter", key=op["key"], index=oi)
            state_in = state
            it_before = int(state_in.iteration_count)
            state = self._iter(algo, state_in, jr.key(op["key"]), cb)
            log = jax.device_get(state.callback_state.log)
            bufs = self._node_bufs(state)
            expected_pos += cls["T"]
            for i in range(n):
                check_node_buffer(res, props, mdp, nodes[i], i, bufs[i], cap, expected_pos, alpha, trace=tr)
            if "C05" in props:
                res.ok("C05", "per_node_buffer", n)
            if "C12" in props and cls.get("iid_probe") and n > 1:
                self._iid_check(res, bufs, cls["starts"], expected_pos, "iterations")
            new_snaps = self._snapshot(state)
            if "C10" in props and not cls.get("base_learner"):
                self._check_schedule(res, plan, it_before, int(state.iteration_count), snaps, new_snaps)
            if "C07" in props and not cls.get("base_learner"):
                self._last_rows = None
                self._check_td(res, plan, bufs, snaps, new_snaps, log, gamma, expected_pos)
                if cls["algo"] == "DQN" and self._last_rows is not None:
                    self._check_direct_train(res, plan, algo, state, new_snaps, gamma, op["key"])
            snaps = new_snaps
            f = faults.get(oi)
            if f is not None and n > 1 and "C12" in props:
                self._perturb_check(res, f, algo, state_in, op["key"], cb, state)
            state = eqx.tree_at(lambda s: s.callback_state, state, SpyState(None), is_leaf=lambda x: x is None)
        return res

    def _iid_check(self, res, bufs, lo, hi, phase):
        """N parallel collections are N INDEPENDENT collections: with a behaviour that is uniformly random and does not
        depend on the state, two nodes can only produce the same action stream by chance (probability <= 2^-bits)."""
        cap = self.cap
        if hi - lo <= 0 or hi > cap:
            return
        streams = [np.asarray(b["actions"][lo:hi]) for b in bufs]
        if self.cls["algo"] == "DQN":
            bits = (hi - lo) * np.log2(self.comps[0])
        else:
            bits = 64.0 if hi - lo >= 2 else 0.0  # continuous draws: equality has probability zero
        if bits < 40:
            res.probes["iid_probe_too_short"] += 1
            return
        for i in range(len(streams)):
            for j in range(i + 1, len(streams)):
                if np.array_equal(streams[i], streams[j]):
                    res.fail("C12", "node_streams_independent", f"identical_action_streams_across_nodes:{phase}", nodes=[i, j], steps=int(hi - lo), bits=float(bits),
                             stream=streams[i].tolist()[:12])
                    return
        res.ok("C12", "node_streams_independent")
        res.faults["F.iid_probe"] += 1

    # ------------------------------------------------------------------ snapshots and schedule

    def _snapshot(self, state) -> dict:
        if self.cls["algo"] == "DQN":
            q, qt = jax.device_get((state.policy.q, state.policy.q if self.cls.get("base_learner") else state.target_policy.q))
            return {"q": np.asarray(q, dtype=np.float64), "qt": np.asarray(qt, dtype=np.float64), "q32": np.asarray(q), "qt32": np.asarray(qt)}
        s = jax.device_get((state.qf1, state.qf2, state.qf1_target, state.qf2_target, state.policy.theta, state.log_alpha))
        return {
            "q1": np.asarray(s[0].q), "w1": np.asarray(s[0].w), "q2": np.asarray(s[1].q), "w2": np.asarray(s[1].w),
            "q1t": np.asarray(s[2].q), "w1t": np.asarray(s[2].w), "q2t": np.asarray(s[3].q), "w2t": np.asarray(s[3].w),
            "theta": np.asarray(s[4]), "log_alpha": np.asarray(s[5]),
        }

    def _check_schedule(self, res, plan, it_before, it_after, old, new):
        cls = self.cls
        E = res.events
        if it_after != it_before + 1:
            res.fail("C10", "iteration_counter", "not_incremented_by_one", got=it_after, expected=it_before + 1)
        else:
            res.ok("C10", "iteration_counter")
        if cls["algo"] == "DQN":
            k = cls["interval"]
            tick = it_after % k == 0
            if tick:
                E["E.tick_target"] += 1
                # target equals the online network as of this iteration (exact copy)
                if not np.array_equal(new["qt32"], new["q32"]):
                    res.fail("C10", "dqn_target_schedule", "target_not_copied_on_multiple_of_interval", iteration=it_after, interval=k)
                else:
                    res.ok("C10", "dqn_target_schedule")
            else:
                if not np.array_equal(new["qt32"], old["qt32"]):
                    copied = np.array_equal(new["qt32"], new["q32"])
                    res.fail("C10", "dqn_target_frozen_between", "target_copied_off_schedule" if copied else "target_changed_between_updates", iteration=it_after, interval=k)
                else:
                    res.ok("C10", "dqn_target_frozen_between")
            return
        # ---- SAC
        tau = float(plan["knobs"]["tau"])
        pf = cls["pfreq"]
        for name in ("q1", "q2", "w1", "w2"):
            ref = tau * new[name].astype(np.float64) + (1 - tau) * old[name + "t"].astype(np.float64)
            if not np.allclose(new[name + "t"], ref, rtol=2e-5, atol=2e-6):
                twice = tau * new[name].astype(np.float64) + (1 - tau) * ref
                swapped = (1 - tau) * new[name].astype(np.float64) + tau * old[name + "t"].astype(np.float64)
                pre = tau * old[name].astype(np.float64) + (1 - tau) * old[name + "t"].astype(np.float64)
                cause = "polyak_mismatch"
                if np.allclose(new[name + "t"], twice, rtol=2e-5, atol=2e-6):
                    cause = "polyak_applied_twice"
                elif np.allclose(new[name + "t"], swapped, rtol=2e-5, atol=2e-6):
                    cause = "polyak_weights_swapped"
                elif np.allclose(new[name + "t"], old[name + "t"], rtol=0, atol=0):
                    cause = "target_not_updated"
                elif np.allclose(new[name + "t"], pre, rtol=2e-5, atol=2e-6):
                    cause = "polyak_from_pre_update_critic"
                res.fail("C10", "sac_polyak_once", cause, leaf=name, iteration=it_after, tau=tau)
                break
        else:
            res.ok("C10", "sac_polyak_once")
        actor_changed = not np.array_equal(new["theta"], old["theta"])
        alpha_changed = not np.array_equal(new["log_alpha"], old["log_alpha"])
        # the statement does not fix the phase: any ONE residue class is accepted per run
        res.probes["sac_iterations"] += 1
        hist = self._gate_hist
        hist.append((it_before, bool(actor_changed), bool(alpha_changed)))
        if actor_changed:
            E["E.tick_actor"] += 1
        if not cls["autotune"] and alpha_changed:
            res.fail("C10", "sac_alpha_gating", "alpha_changed_without_autotune", iteration=it_after)
        elif alpha_changed and not actor_changed:
            res.fail("C10", "sac_alpha_gating", "alpha_changed_on_non_actor_iteration", iteration=it_after)
        else:
            res.ok("C10", "sac_alpha_gating")
        changed_res = {it % pf for (it, ch, _) in hist if ch}
        if len(changed_res) > 1:
            res.fail("C10", "sac_actor_gating", "actor_changed_on_more_than_one_residue", residues=sorted(changed_res), policy_frequency=pf, history=[(a, b) for a, b, _ in hist])
        elif changed_res:
            r0 = next(iter(changed_res))
            missed = [it for (it, ch, _) in hist if it % pf == r0 and not ch]
            if missed:
                res.fail("C10", "sac_actor_gating", "actor_not_updated_on_scheduled_iteration", iterations=missed, policy_frequency=pf)
            else:
                res.ok("C10", "sac_actor_gating")
        elif len(hist) >= pf:
            res.fail("C10", "sac_actor_gating", "actor_never_updated", policy_frequency=pf, iterations=len(hist))

    # ------------------------------------------------------------------ TD targets

    def _check_td(self, res, plan, bufs, old, new, log, gamma, pos):
        cls = self.cls
        n, cap = self.n, self.cap
        B = cls["batch"]
        stored = n * min(pos, cap)
        if stored != B:
            res.probes["td_skipped_batch_not_full"] += 1
            return
        rows = []
        for i in range(n):
            b = bufs[i]
            for idx in range(min(pos, cap)):
                s2_ = int(b["next_ids"][idx])
                # the TRUE successor: if the stored successor observation is not a legal successor of (s, executed action)
                # and the legal successor is unique, the reference bootstraps from the true one (C07 is about V'(s') of the
                # state the environment actually reached, not of whatever observation the collector stored)
                s_ = int(b["obs_ids"][idx])
                if 0 <= s_ < self._mdp.NS:
                    legal = self._mdp.successors(s_, self._mdp.clip(b["actions"][idx]))
                    if s2_ not in legal and len(legal) == 1:
                        res.probes["td_true_successor_differs_from_stored"] += 1
                        s2_ = legal[0]
                rows.append({"s": int(b["obs_ids"][idx]), "a": b["actions"][idx], "r": float(b["rewards"][idx]), "s2": s2_,
                             "k": int(b["k"][idx]), "k2": int(b["k"][idx]) + 1,
                             "done": bool(b["dones"][idx]), "timeout": bool(b["timeouts"][idx]),
                             # TRUE termination of this transition as scheduled by the simulator (not what the collector stored)
                             "term_true": bool(self._term_table[s2_]) if 0 <= s2_ < len(self._term_table) else False})
        E = res.events
        for r in rows:
            if r["done"] and r["timeout"]:
                E["E.batch_timeout_row"] += 1
            elif r["done"]:
                E["E.batch_terminal_row"] += 1
        if cls["algo"] == "DQN":
            qb = plan["policy"].get("qbias")
            if argmax_gap(old["q"], rows, qb) < 1e-3:
                res.probes["td_skipped_argmax_tie"] += 1
                return
            ref_q, ref_loss, targets = dqn_reference_step(old["q"], old["qt"], rows, gamma, self.sgd_lr, qb)
            self._last_rows = rows
            if qb is not None:
                res.events["E.q_depends_on_policy_state"] += 1
            got = new["q"]
            scale = max(1.0, float(np.max(np.abs(ref_q))))
            if not np.allclose(got, ref_q, rtol=0, atol=3e-5 * scale):
                cause = self._dqn_cause(old, rows, gamma, got, scale, qb)
                stored_rows = [{k: v for k, v in r.items() if k != "term_true"} for r in rows]
                if np.allclose(got, dqn_reference_step(old["q"], old["qt"], stored_rows, gamma, self.sgd_lr, qb)[0], rtol=0, atol=3e-5 * scale):
                    cause = ("dqn_no_bootstrap_on_term", "stored_timeout_flag_hides_a_true_termination") if any(r["term_true"] and r["timeout"] for r in rows) \
                        else ("dqn_bootstrap_through_timeout", "stored_flags_disagree_with_scheduled_events")
                bad = np.argwhere(np.abs(got - ref_q) > 3e-5 * scale)[0]
                res.fail("C07", "dqn_target_formula" if cause == "mismatch" else cause[0], cause if cause == "mismatch" else cause[1],
                         entry=[int(bad[0]), int(bad[1])], got=float(got[tuple(bad)]), expected=float(ref_q[tuple(bad)]), rows=rows[:16], gamma=gamma)
            else:
                res.ok("C07", "dqn_target_formula", len(rows))
                if any(r["done"] and r["timeout"] for r in rows):
                    res.ok("C07", "dqn_bootstrap_through_timeout")
                if any(r["done"] and not r["timeout"] for r in rows):
                    res.ok("C07", "dqn_no_bootstrap_on_term")
            if "loss" in log and not close(float(log["loss"]), ref_loss, rel=5e-5, terms=4):
                res.fail("C07", "dqn_loss_value", "logged_loss_mismatch", got=float(log["loss"]), expected=ref_loss)
            else:
                res.ok("C07", "dqn_loss_value")
            return
        # ---- SAC critic regression
        pol = plan["policy"]
        nact = np.asarray(pol["nact"], dtype=np.float64)
        nlp = np.asarray(pol["nlp"], dtype=np.float64) + float(old["theta"])
        al = float(np.exp(old["log_alpha"]))
        q1t, q2t = old["q1t"].astype(np.float64), old["q2t"].astype(np.float64)
        w1t, w2t = float(old["w1t"]), float(old["w2t"])
        ys = []
        for r in rows:
            s2 = r["s2"]
            an = float(np.sum(nact[s2]))
            v = min(q1t[s2] + w1t * an, q2t[s2] + w2t * an) - al * nlp[s2]
            terminated = r["term_true"]
            ys.append(r["r"] + gamma * (0.0 if terminated else 1.0) * v)
        q1, q2 = old["q1"].astype(np.float64), old["q2"].astype(np.float64)
        w1, w2 = float(old["w1"]), float(old["w2"])
        loss = 0.0
        g1, g2 = np.zeros_like(q1), np.zeros_like(q2)
        gw1 = gw2 = 0.0
        Bn = len(rows)
        for r, y in zip(rows, ys):
            asum = float(np.sum(np.asarray(r["a"], dtype=np.float64)))
            d1 = q1[r["s"]] + w1 * asum - y
            d2 = q2[r["s"]] + w2 * asum - y
            loss += (d1 * d1 + d2 * d2) / Bn / 2
            g1[r["s"]] += d1 / Bn
            g2[r["s"]] += d2 / Bn
            gw1 += d1 * asum / Bn
            gw2 += d2 * asum / Bn
        if "q_loss" in log:
            if not close(float(log["q_loss"]), loss, rel=1e-4, terms=4):
                res.fail("C07", "sac_target_formula", self._sac_cause(rows, ys, old, nact, nlp, al, gamma, float(log["q_loss"])), got=float(log["q_loss"]), expected=loss, rows=rows[:12])
            else:
                res.ok("C07", "sac_target_formula", len(rows))
                res.ok("C07", "sac_min_of_targets")
                res.ok("C07", "sac_entropy_term")
        lr = self.sgd_lr
        ref = {"q1": q1 - lr * g1, "q2": q2 - lr * g2, "w1": w1 - lr * gw1, "w2": w2 - lr * gw2}
        for name in ("q1", "q2", "w1", "w2"):
            sc = max(1.0, float(np.max(np.abs(ref[name]))))
            if not np.allclose(new[name], ref[name], rtol=0, atol=1e-4 * sc):
                res.fail("C07", "actor_step_leaves_critics", "critics_not_equal_to_reference_critic_step", leaf=name, got=np.asarray(new[name]).tolist(), expected=np.asarray(ref[name]).tolist())
                break
        else:
            res.ok("C07", "actor_step_leaves_critics")
            res.ok("C07", "targets_not_trained")

    def _check_direct_train(self, res, plan, algo, state, snaps, gamma, key_int):
        """The public `DQN.train(policy, opt_state, buffer, key=...)` entry point (the policy itself serves as target network):
        the TD target is a constant for the optimiser there as well — one semi-gradient SGD step of the reference."""
        if getattr(self, "_jtrain", None) is None:
            self._jtrain = eqx.filter_jit(lambda a, p, o, b, k: a.train(p, o, b, key=k))
        rows = self._last_rows
        qb = plan["policy"].get("qbias")
        q = snaps["q"]
        if argmax_gap(q, rows, qb) < 1e-3:
            return
        new_policy, _, _ = self._jtrain(algo, state.policy, state.opt_state, state.step_state.buffer, jr.key(key_int ^ 0x2F2F))
        got = np.asarray(jax.device_get(new_policy.q), dtype=np.float64)
        ref_q, _, _ = dqn_reference_step(q, q, rows, gamma, self.sgd_lr, qb)
        scale = max(1.0, float(np.max(np.abs(ref_q))))
        res.events["E.direct_train_call"] += 1
        if not np.allclose(got, ref_q, rtol=0, atol=3e-5 * scale):
            bad = np.argwhere(np.abs(got - ref_q) > 3e-5 * scale)[0]
            res.fail("C07", "targets_not_trained", "direct_train_step_is_not_the_semi_gradient_step", entry=[int(bad[0]), int(bad[1])], got=float(got[tuple(bad)]), expected=float(ref_q[tuple(bad)]))
        else:
            res.ok("C07", "targets_not_trained")
        # the same entry point on a CRAFTED batch: the stored flags are overwritten with all four (done, timeout) combinations,
        # including (False, True), which the collector never writes; the target rule r + gamma*(1 - terminated)*V' with
        # terminated = done and not timeout must hold for whatever batch the loss is given
        combos = [(False, False), (True, False), (True, True), (False, True)]
        buf = state.step_state.buffer
        shape = np.asarray(buf.dones).shape
        slot = np.arange(int(np.prod(shape))).reshape(shape)
        dn = np.vectorize(lambda j: combos[j % 4][0])(slot)
        to = np.vectorize(lambda j: combos[j % 4][1])(slot)
        buf2 = eqx.tree_at(lambda b: (b.dones, b.timeouts), buf, (jnp.asarray(dn), jnp.asarray(to)))
        rows2 = []
        cap = self.cap
        per_node = len(rows) // self.n
        for j, r in enumerate(rows):
            i, idx = divmod(j, per_node)
            k = (i * cap + idx) if self.n > 1 else idx
            r2 = {kk: v for kk, v in r.items() if kk != "term_true"}
            r2["done"], r2["timeout"] = combos[k % 4]
            rows2.append(r2)
        new2, _, _ = self._jtrain(algo, state.policy, state.opt_state, buf2, jr.key(key_int ^ 0x3D3D))
        got2 = np.asarray(jax.device_get(new2.q), dtype=np.float64)
        ref2, _, _ = dqn_reference_step(q, q, rows2, gamma, self.sgd_lr, qb)
        if not np.allclose(got2, ref2, rtol=0, atol=3e-5 * max(1.0, float(np.max(np.abs(ref2))))):
            res.fail("C07", "dqn_target_formula", "crafted_flag_combinations_not_handled_by_the_target_rule", combos=[list(c) for c in combos])
        else:
            res.ok("C07", "dqn_target_formula", len(rows2))

    def _dqn_cause(self, old, rows, gamma, got, scale, qbias=None):
        """Name a wrong DQN target rule by trying the usual suspects."""
        q0, qt0 = old["q"], old["qt"]
        lr = self.sgd_lr
        qb = np.zeros((3, q0.shape[1])) if qbias is None else np.asarray(qbias, dtype=np.float64)

        def step(rule):
            B = len(rows)
            out = q0.copy()
            for r in rows:
                b2 = qb[min(r.get("k2", 0), 2)]
                nonlocal_q[0], nonlocal_q[1] = {r["s2"]: q0[r["s2"]] + b2}, {r["s2"]: qt0[r["s2"]] + b2}
                y = rule(r)
                out[r["s"], int(r["a"])] -= lr * (q0[r["s"], int(r["a"])] + qb[min(r.get("k", 0), 2)][int(r["a"])] - y) / B
            return out

        nonlocal_q = [None, None]

        class _T:
            def __init__(self, i):
                self.i = i

            def __getitem__(self, idx):
                if isinstance(idx, tuple):
                    return nonlocal_q[self.i][idx[0]][idx[1]]
                return nonlocal_q[self.i][idx]

        q, qt = _T(0), _T(1)

        def nt(r):
            return 0.0 if r.get("term_true", r["done"] and not r["timeout"]) else 1.0

        rules = {
            ("dqn_bootstrap_through_timeout", "no_bootstrap_on_timeout"): lambda r: r["r"] + gamma * (0.0 if r["done"] else 1.0) * qt[r["s2"], int(np.argmax(q[r["s2"]]))],
            ("dqn_no_bootstrap_on_term", "bootstrap_through_termination"): lambda r: r["r"] + gamma * qt[r["s2"], int(np.argmax(q[r["s2"]]))],
            ("dqn_no_bootstrap_on_term", "mask_inverted"): lambda r: r["r"] + gamma * (1.0 - nt(r)) * qt[r["s2"], int(np.argmax(q[r["s2"]]))],
            ("dqn_double_q", "max_of_target_network"): lambda r: r["r"] + gamma * nt(r) * float(np.max(qt[r["s2"]])),
            ("dqn_double_q", "online_network_evaluates"): lambda r: r["r"] + gamma * nt(r) * float(np.max(q[r["s2"]])),
            ("dqn_double_q", "greedy_action_from_target_network"): lambda r: r["r"] + gamma * nt(r) * q[r["s2"], int(np.argmax(qt[r["s2"]]))],
        }
        for name, rule in rules.items():
            if np.allclose(got, step(rule), rtol=0, atol=3e-5 * scale):
                return name
        return "mismatch"

    def _sac_cause(self, rows, ys, old, nact, nlp, al, gamma, got):
        q1t, q2t = old["q1t"].astype(np.float64), old["q2t"].astype(np.float64)
        w1t, w2t = float(old["w1t"]), float(old["w2t"])
        q1, q2 = old["q1"].astype(np.float64), old["q2"].astype(np.float64)
        w1, w2 = float(old["w1"]), float(old["w2"])

        def loss_with(rule):
            tot = 0.0
            for r in rows:
                s2 = r["s2"]
                an = float(np.sum(nact[s2]))
                y = rule(r, q1t[s2] + w1t * an, q2t[s2] + w2t * an, nlp[s2])
                asum = float(np.sum(np.asarray(r["a"], dtype=np.float64)))
                d1 = q1[r["s"]] + w1 * asum - y
                d2 = q2[r["s"]] + w2 * asum - y
                tot += (d1 * d1 + d2 * d2) / len(rows) / 2
            return tot

        def nt(r):
            return 0.0 if r.get("term_true", r["done"] and not r["timeout"]) else 1.0

        rules = {
            "stored_timeout_flag_hides_a_true_termination": lambda r, a, b, lp: r["r"] + gamma * (0.0 if (r["done"] and not r["timeout"]) else 1.0) * (min(a, b) - al * lp),
            "max_of_target_critics": lambda r, a, b, lp: r["r"] + gamma * nt(r) * (max(a, b) - al * lp),
            "entropy_term_missing": lambda r, a, b, lp: r["r"] + gamma * nt(r) * min(a, b),
            "entropy_term_wrong_sign": lambda r, a, b, lp: r["r"] + gamma * nt(r) * (min(a, b) + al * lp),
            "no_bootstrap_on_timeout": lambda r, a, b, lp: r["r"] + gamma * (0.0 if r["done"] else 1.0) * (min(a, b) - al * lp),
            "bootstrap_through_termination": lambda r, a, b, lp: r["r"] + gamma * (min(a, b) - al * lp),
            "mask_inverted": lambda r, a, b, lp: r["r"] + gamma * (1.0 - nt(r)) * (min(a, b) - al * lp),
        }
        for name, rule in rules.items():
            if close(got, loss_with(rule), rel=1e-4, terms=4):
                return name
        return "mismatch"

    # ------------------------------------------------------------------ node perturbation

    def _perturb_check(self, res, f, algo, state_in, key, cb, state_out):
        j = f["node"]
        new_s = state_in.step_state.env_state.unwrapped.s.at[j].set(f["to"])
        pert = _set_unwrapped_s(state_in, new_s)
        out2 = self._iter(algo, pert, jr.key(key), cb)
        a = jax.device_get(state_out.step_state)
        b = jax.device_get(out2.step_state)
        paths = [jax.tree_util.keystr(p) for p, _ in jax.tree_util.tree_leaves_with_path(a)]
        res.faults["F.node_perturb"] += 1
        changed_self = False
        for path, x, y in zip(paths, jax.tree.leaves(a), jax.tree.leaves(b)):
            x, y = np.asarray(x), np.asarray(y)
            for i in range(self.n):
                same = np.array_equal(x[i], y[i], equal_nan=True) if x.dtype.kind == "f" else np.array_equal(x[i], y[i])
                if i == j:
                    changed_self = changed_self or not same
                elif not same:
                    res.fail("C12", "node_noninterference", "other_node_changed", perturbed=j, node=i, leaf=path)
                    return
        res.ok("C12", "node_noninterference")
        if changed_self:
            res.probes["perturbation_visible_in_own_node"] += 1
