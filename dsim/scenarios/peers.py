"""S9 `peers` — Gymnasium / Gymnax adapters against simulated and real peers.

The peer behind `GymToLeraxEnv` has hidden mutable state (the lerax state object does not
contain it), so what matters is the CALL HISTORY that reaches it: the simulated peer
(`SimGymEnv`) logs every `reset(seed)` / `step(action)`; the oracle compares history and
outputs with what a directly driven twin would see, both for the Gym-style API and when
the adapter is the environment of the real on-/off-policy collection loops (the peer may
be reset only at episode ends).  `LeraxToGymEnv` and `LeraxToGymnaxEnv` are refined
against RefMDP; `GymnaxToLeraxEnv` is twin-run against the real gymnax CartPole.

Serves C13 (adapters reproduce the trajectory), C01 (step/reset contract through the
adapters) and C10 (environment steps consumed per iteration, witnessed by the peer).
"""

from __future__ import annotations

import copy
import random

import equinox as eqx
import gymnasium as gym
import jax
import numpy as np
from jax import numpy as jnp
from jax import random as jr

from lerax.algorithm import DQN, PPO
from lerax.compatibility.gym import GymToLeraxEnv, LeraxToGymEnv
from lerax.policy import MLPActorCriticPolicy, MLPQPolicy

from ..classes import peers as classes  # noqa: F401
from ..kernel import RunResult, Trace
from ..ref.mdp import RefMDP, close
from ..world.mdp import SimMDP, comps_of, dummy_tables, gen_tables, with_tables
from .collect_on import build_env, replace_inner, set_time_limit

NAME = "peers"
PROPS = {"C01", "C10", "C13"}


class PeerFault(RuntimeError):
    pass


class SimGymEnv(gym.Env):
    """Finite-MDP Gymnasium peer with a call log.  Deterministic given (seed, actions)."""

    def __init__(self, S: int, A: int, D: int = 3):
        self.S, self.A, self.D = S, A, D
        self.observation_space = gym.spaces.Box(-32.0, 32.0, shape=(D,), dtype=np.float32)
        self.action_space = gym.spaces.Discrete(A)
        self.tables = None
        self.log: list = []
        self.s = None
        self.t = 0
        self.fault = None  # ("raise_step", k) | ("dtype", "float64") | None
        self.n_steps = 0
        self.needs_reset = True

    def load(self, tables: dict, time_limit: int):
        self.tables = tables
        self.N = time_limit
        self.log = []
        self.s, self.t, self.n_steps, self.needs_reset, self.fault = None, 0, 0, True, None
        # hidden mutable state of the peer: gymnasium's own np_random, re-seeded only when reset() gets a seed;
        # every simulated run starts from a peer whose generator was never seeded (as a freshly made gym.Env)
        self._np_random = None

    def _obs(self):
        o = np.asarray(self.tables["obs"][self.s], dtype=np.float32)
        if self.fault and self.fault[0] == "dtype":
            return o.astype(np.float64)
        return o

    def reset(self, *, seed=None, options=None):
        self.log.append(("reset", None if seed is None else int(seed)))
        init = self.tables["init"]
        super().reset(seed=None if seed is None else int(seed))  # Gymnasium convention: seeds self.np_random iff a seed is given
        self.s = int(init[int(self.np_random.integers(len(init)))])
        self.t = 0
        self.needs_reset = False
        return self._obs(), {}

    def step(self, action):
        a = int(np.asarray(action))
        self.log.append(("step", a, self.s, self.t, self.needs_reset))
        self.n_steps += 1
        if self.fault and self.fault[0] == "raise_step" and self.n_steps == self.fault[1]:
            raise PeerFault("injected peer failure")
        s2 = int(self.tables["succ"][self.s][a][0])
        r = float(self.tables["rew"][self.s][a][s2])
        self.s = s2
        self.t += 1
        term = bool(self.tables["term"][s2])
        trunc = bool(self.tables["trunc"][s2]) or self.t >= self.N
        if term or trunc:
            self.needs_reset = True
        return self._obs(), r, term, trunc, {}


class Runner:
    def __init__(self, cls: dict):
        self.cls = cls
        self.mode = cls["mode"]
        S, A = cls["S"], cls["A"]
        self.S, self.A = S, A
        if self.mode in ("gym_direct", "gym_collect_on", "gym_collect_off"):
            self.peer = SimGymEnv(S + 1, A)
            self.peer.load(dummy_tables(S, "discrete", (A,)), 3)
            self.env = GymToLeraxEnv(self.peer)
            if self.mode == "gym_collect_on":
                self.algo = PPO(num_envs=1, num_steps=cls["T"], num_epochs=1, num_batches=1)
                self.policy = MLPActorCriticPolicy(self.env, feature_size=4, feature_width=4, value_width=4, action_width=4, key=jr.key(0))
            elif self.mode == "gym_collect_off":
                self.algo = DQN(buffer_size=16, learning_starts=cls["starts"], num_envs=1, num_steps=cls["T"], batch_size=2, target_update_interval=2)
                self.policy = MLPQPolicy(self.env, epsilon=0.5, width_size=4, depth=1, key=jr.key(0))
        elif self.mode in ("lerax_to_gym", "lerax_to_gymnax"):
            self.kind = "discrete"
            self.comps = (A,)
            self.env0 = build_env({"kind": "discrete", "dims": [A], "obs_kind": "box", "stack": cls["stack"]}, dummy_tables(S, "discrete", (A,)))
            self.has_tl = "TimeLimit" in cls["stack"]
        elif self.mode == "lerax_to_gym_cont":
            from lerax.env.classic_control import CartPole
            from lerax.wrapper import TimeLimit

            self.cont_env = TimeLimit(CartPole(), int(cls.get("limit", 3)))
        elif self.mode == "gymnax_to_lerax":
            import gymnax

            from lerax.compatibility.gymnax import GymnaxToLeraxEnv

            self.gx_env, self.gx_params = gymnax.make(cls.get("gx", "CartPole-v1"))
            if cls.get("params"):
                # NON-default parameters that the reset of the adapted environment depends on
                self.gx_params = self.gx_params.replace(**cls["params"])
            self.env = GymnaxToLeraxEnv(self.gx_env, self.gx_params)
            self.gx_box = cls.get("gx", "CartPole-v1") == "PointRobot-misc"
            self._gx_step = jax.jit(lambda k, s, a: self.gx_env.step_env(k, s, a, self.gx_params))
            self._gx_reset = jax.jit(lambda k: self.gx_env.reset_env(k, self.gx_params))

    # ------------------------------------------------------------------ plans

    def gen(self, rng, prop: str) -> dict:
        cls = self.cls
        plan = {"scenario": NAME, "cls": cls, "faults": []}
        if self.mode == "lerax_to_gym_cont":
            plan["ops"] = [{"op": "reset", "key": rng.choice([0, 1, rng.getrandbits(31)])}] + [{"op": "step", "key": 0, "a": rng.randrange(2)} for _ in range(rng.randint(7, 16))]
            return plan
        if self.mode != "gymnax_to_lerax":
            plan["world"] = gen_tables(rng, S=self.S, kind="discrete", dims=(self.A,), bias={"p_stochastic": 0.0, "p_term": rng.choice([0.0, 0.2, 0.4]), "p_trunc": rng.choice([0.0, 0.15])})
            plan["time_limit"] = rng.choice([1, 2, 3, 4, 6])
        if self.mode in ("gym_direct", "lerax_to_gym", "lerax_to_gymnax", "gymnax_to_lerax"):
            def seed():
                # boundary seeds are legal seeds like any other (0 in particular is falsy in Python)
                return rng.choice([0, 0, 1, 2**31 - 1]) if rng.random() < 0.3 else rng.getrandbits(31)

            ops = [{"op": "reset", "key": seed()}]
            for _ in range(rng.randint(3, 30)):
                if rng.random() < 0.08:
                    ops.append({"op": "reset", "key": seed()})
                else:
                    ops.append({"op": "step", "key": rng.getrandbits(31), "a": rng.randrange(self.A if self.mode != "gymnax_to_lerax" else 2)})
            plan["ops"] = ops
            if self.mode == "gym_direct" and rng.random() < 0.2:
                plan["faults"].append(rng.choice([{"kind": "peer_raise", "at": rng.randint(1, 6)}, {"kind": "peer_dtype"}]))
        else:
            plan["ops"] = [{"op": "reset", "key": rng.getrandbits(31)}] + [{"op": "iter", "key": rng.getrandbits(31)} for _ in range(rng.randint(1, 3))]
            plan["policy_key"] = rng.getrandbits(31)
        return plan

    def shrink_candidates(self, plan: dict):
        ops = plan["ops"]
        if len(ops) > 2:
            yield {**copy.deepcopy(plan), "ops": copy.deepcopy(ops[: max(2, len(ops) // 2)])}
            yield {**copy.deepcopy(plan), "ops": copy.deepcopy(ops[:-1])}
        if plan["faults"]:
            yield {**copy.deepcopy(plan), "faults": []}

    # ------------------------------------------------------------------ execution

    def execute(self, plan: dict, props: set | None = None) -> RunResult:
        props = set(props or PROPS)
        return getattr(self, "_exec_" + self.mode)(plan, props)

    # ---- LeraxToGymEnv over an environment with a CONTINUOUS initial-state distribution, stepped through several episode ends
    def _exec_lerax_to_gym_cont(self, plan, props) -> RunResult:
        res = RunResult(Trace())
        genv = LeraxToGymEnv(self.cont_env)
        starts = []
        for op in plan["ops"]:
            if op["op"] == "reset":
                obs, _ = genv.reset(seed=op["key"])
                starts.append(np.asarray(obs).tobytes())
                continue
            obs, r, term, trunc, _ = genv.step(op["a"])
            res.steps += 1
            if term or trunc:
                # the observation returned by a done step belongs to the freshly drawn initial state
                starts.append(np.asarray(obs).tobytes())
                res.events["E.adapter_auto_reset"] += 1
        res.trace.ev("cont", starts=len(starts), distinct=len(set(starts)))
        if len(starts) >= 3:
            # continuous initial-state distribution: two episodes starting from bit-identical states has probability ~0 on correct code
            if len(set(starts)) < len(starts):
                for P in ("C01", "C13"):
                    if P in props:
                        res.fail(P, "step_state_fresh_on_done" if P == "C01" else "adapter_outputs", "auto_reset_returns_the_same_initial_state_again", episodes=len(starts), distinct=len(set(starts)))
            else:
                res.ok("C01", "step_state_fresh_on_done")
                res.ok("C13", "adapter_outputs")
        return res

    # ---- GymToLeraxEnv through the Gym-style API
    def _exec_gym_direct(self, plan, props) -> RunResult:
        res = RunResult(Trace())
        tr = res.trace
        peer = self.peer
        peer.load(plan["world"], plan["time_limit"])
        for f in plan["faults"]:
            if f["kind"] == "peer_raise":
                peer.fault = ("raise_step", f["at"])
            elif f["kind"] == "peer_dtype":
                peer.fault = ("dtype", "float64")
        env = self.env
        state = None
        expect_log_len = 0
        for op in plan["ops"]:
            n0 = len(peer.log)
            try:
                if op["op"] == "reset":
                    state, obs, info = env.reset(key=jr.key(op["key"]))
                    jax.block_until_ready(obs)
                    jax.effects_barrier()
                    new = peer.log[n0:]
                    tr.ev("reset", calls=[c[0] for c in new])
                    if [c[0] for c in new] != ["reset"]:
                        self._fail13(res, props, "adapter_peer_history", "reset_did_not_reach_peer_exactly_once", calls=new)
                    elif new[0][1] is None:
                        self._fail13(res, props, "adapter_peer_history", "reset_reached_peer_without_a_seed_from_the_key", calls=new)
                    elif not np.allclose(np.asarray(obs), np.asarray(plan["world"]["obs"][peer.s], dtype=np.float32)):
                        self._fail13(res, props, "adapter_outputs", "reset_observation_differs_from_peer", got=np.asarray(obs).tolist())
                    else:
                        res.ok("C13", "adapter_peer_history")
                    continue
                if state is None:
                    continue
                s_before, t_before = peer.s, peer.t
                outs = env.step(state, jnp.asarray(op["a"]), key=jr.key(op["key"]))
                jax.block_until_ready(outs[1])
                jax.effects_barrier()
            except Exception as exc:  # noqa: BLE001
                if peer.fault is not None:
                    res.faults["F.peer_" + ("raise" if peer.fault[0] == "raise_step" else "dtype")] += 1
                    tr.ev("adapter_raised", exc=type(exc).__name__)
                    res.probes["adapter_failed_loudly_after_peer_fault"] += 1
                    return res  # failing loudly is acceptable; nothing after it is judged
                raise
            new_state, obs, reward, term, trunc, info = outs
            new = peer.log[n0:]
            s2 = int(plan["world"]["succ"][s_before][op["a"]][0])
            want_r = float(plan["world"]["rew"][s_before][op["a"]][s2])
            want_term = bool(plan["world"]["term"][s2])
            want_trunc = bool(plan["world"]["trunc"][s2]) or t_before + 1 >= plan["time_limit"]
            done = want_term or want_trunc
            want_calls = ["step"] + (["reset"] if done else [])
            tr.ev("step", a=op["a"], calls=[c[0] for c in new], r=float(reward), term=bool(term), trunc=bool(trunc))
            if want_term and want_trunc:
                res.events["E.both"] += 1
            elif want_term:
                res.events["E.term"] += 1
            elif want_trunc:
                res.events["E.trunc_env"] += 1
            if [c[0] for c in new] != want_calls:
                self._fail13(res, props, "adapter_peer_history", "peer_reset_without_done" if [c[0] for c in new] == ["step", "reset"] and not done else "peer_call_history_differs_from_twin",
                             got=[c[0] for c in new], expected=want_calls)
            else:
                res.ok("C13", "adapter_peer_history")
            if new and new[0][0] == "step" and new[0][1] != op["a"]:
                self._fail13(res, props, "adapter_outputs", "peer_received_other_action", got=new[0][1], expected=op["a"])
            if not close(float(reward), want_r) or bool(term) != want_term or bool(trunc) != want_trunc:
                self._fail13(res, props, "adapter_outputs", "truncated_dropped" if bool(trunc) != want_trunc and bool(term) == want_term else "step_outputs_differ_from_peer",
                             got=[float(reward), bool(term), bool(trunc)], expected=[want_r, want_term, want_trunc])
                if "C01" in props:
                    res.fail("C01", "step_flags", "adapter_step_outputs_differ_from_peer", got=[float(reward), bool(term), bool(trunc)], expected=[want_r, want_term, want_trunc])
            else:
                res.ok("C13", "adapter_outputs")
                res.ok("C01", "step_flags")
            # observation is that of the returned (possibly reset) peer state
            if not np.allclose(np.asarray(obs), np.asarray(plan["world"]["obs"][peer.s], dtype=np.float32)):
                if "C01" in props:
                    res.fail("C01", "step_obs_of_returned_state", "adapter_observation_not_of_current_peer_state")
                self._fail13(res, props, "adapter_outputs", "observation_not_of_current_peer_state")
            else:
                res.ok("C01", "step_obs_of_returned_state")
            state = new_state
            res.steps += 1
        if peer.fault is not None and peer.fault[0] == "dtype":
            res.faults["F.peer_dtype"] += 1
        return res

    def _fail13(self, res, props, check, cause, **detail):
        if "C13" in props:
            res.fail("C13", check, cause, **detail)

    # ---- GymToLeraxEnv as the environment of the real collection loops
    def _exec_gym_collect_on(self, plan, props) -> RunResult:
        return self._collect(plan, props, on=True)

    def _exec_gym_collect_off(self, plan, props) -> RunResult:
        return self._collect(plan, props, on=False)

    def _collect(self, plan, props, on: bool) -> RunResult:
        from lerax.callback import CallbackList

        cls = self.cls
        res = RunResult(Trace())
        tr = res.trace
        peer = self.peer
        peer.load(plan["world"], plan["time_limit"])
        if not hasattr(self, "_reset"):
            cb = CallbackList(callbacks=[])
            self._reset = eqx.filter_jit(lambda algo, env, pol, key: algo.reset(env, pol, key=key, callback=cb))
            self._iter = eqx.filter_jit(lambda algo, st, key: algo.iteration(st, key=key, callback=cb))
        state = None
        iters = 0
        for op in plan["ops"]:
            if op["op"] == "reset":
                state = self._reset(self.algo, self.env, self.policy, jr.key(op["key"]))
            else:
                state = self._iter(self.algo, state, jr.key(op["key"]))
                iters += 1
            jax.block_until_ready(jax.tree.leaves(eqx.filter(state.step_state, eqx.is_array)))
            jax.effects_barrier()
        log = list(peer.log)
        tr.ev("peer_log", calls="".join("R" if c[0] == "reset" else "s" for c in log))
        n_steps = sum(1 for c in log if c[0] == "step")
        want_steps = iters * cls["T"] + (cls.get("starts", 0) if not on else 0)
        if "C10" in props:
            if n_steps != want_steps:
                res.fail("C10", "steps_per_iteration", "peer_saw_other_number_of_steps", got=n_steps, expected=want_steps)
            else:
                res.ok("C10", "steps_per_iteration")
        # history oracle: a twin peer driven directly would be reset once at the start and once after every done step
        bad = None
        prev = None
        resets_without_done = 0
        for i, c in enumerate(log):
            if c[0] == "step":
                if c[4]:  # stepping a peer that needs a reset (episode ended, no reset reached it)
                    bad = ("peer_stepped_after_done_without_reset", i)
                    break
            else:
                if prev is not None and prev[0] == "step" and not self._was_done(plan, prev):
                    resets_without_done += 1
                if prev is not None and prev[0] == "reset":
                    resets_without_done += 1
            prev = c
        if log and log[0][0] != "reset":
            bad = ("first_peer_call_is_not_reset", 0)
        if bad is not None:
            self._fail13(res, props, "adapter_peer_history", bad[0], at=bad[1], log="".join("R" if c[0] == "reset" else "s" for c in log)[:80])
        elif resets_without_done:
            self._fail13(res, props, "adapter_peer_history", "peer_reset_without_done", count=resets_without_done, log="".join("R" if c[0] == "reset" else "s" for c in log)[:80])
        else:
            res.ok("C13", "adapter_peer_history")
        # every episode must be able to reach its time limit: the peer's own clock shows the trajectory lerax saw
        max_t = max([c[3] for c in log if c[0] == "step"], default=0)
        if iters * cls["T"] >= 2 * plan["time_limit"] and plan["time_limit"] > 1 and max_t == 0 and not any(plan["world"]["term"]) and not any(plan["world"]["trunc"]):
            self._fail13(res, props, "adapter_peer_history", "peer_episode_never_progresses", time_limit=plan["time_limit"])
        res.steps += n_steps
        for c in log:
            if c[0] == "step" and self._was_done(plan, c):
                res.events["E.peer_episode_end"] += 1
        return res

    def _was_done(self, plan, step_call) -> bool:
        _, a, s, t, _ = step_call
        s2 = int(plan["world"]["succ"][s][a][0])
        return bool(plan["world"]["term"][s2]) or bool(plan["world"]["trunc"][s2]) or t + 1 >= plan["time_limit"]

    # ---- LeraxToGymEnv / LeraxToGymnaxEnv over a SimMDP stack
    def _lerax_env(self, plan):
        inner = with_tables(self.env0.unwrapped, plan["world"])
        return set_time_limit(replace_inner(self.env0, inner), int(plan["time_limit"]))

    def _refine(self, res, props, mdp, cur_s, ep, a, obs, reward, done_flags, plan):
        """Shared refinement of one adapter step against RefMDP (deterministic tables)."""
        s2 = mdp.successors(cur_s, np.asarray(a))[0]
        term, trunc = mdp.flags(s2, ep + 1)
        want_r = mdp.reward(cur_s, np.asarray(a), s2)
        ok = close(float(reward), want_r)
        if done_flags is not None:
            t_got, tr_got = done_flags
            ok = ok and (bool(t_got) == term) and (tr_got is None or bool(tr_got) == trunc)
        if term and trunc:
            res.events["E.both"] += 1
        elif term:
            res.events["E.term"] += 1
        elif trunc:
            res.events["E.trunc_tl" if ep + 1 >= (mdp.time_limit or 10**9) else "E.trunc_env"] += 1
        return s2, term, trunc, want_r, ok

    def _exec_lerax_to_gym(self, plan, props) -> RunResult:
        res = RunResult(Trace())
        tr = res.trace
        env = self._lerax_env(plan)
        mdp = RefMDP("discrete", (self.A,), plan["world"], time_limit=int(plan["time_limit"]) if self.has_tl else None)
        genv = LeraxToGymEnv(env)
        cur_s, ep = None, 0
        for op in plan["ops"]:
            if op["op"] == "reset":
                obs, info = genv.reset(seed=op["key"])
                cur_s, ep = int(round(float(obs[0]))), 0
                tr.ev("reset", s=cur_s)
                if cur_s not in mdp.init or not isinstance(obs, np.ndarray) or not np.allclose(obs, mdp.obs_row(cur_s)):
                    self._fail13(res, props, "adapter_outputs", "gym_reset_observation_not_initial", got=np.asarray(obs).tolist())
                    if "C01" in props:
                        res.fail("C01", "reset_initial", "gym_adapter_reset_not_initial")
                else:
                    res.ok("C13", "adapter_outputs")
                # same seed => same start (Gymnasium's seeding contract reproduces the trajectory)
                continue
            if cur_s is None:
                continue
            obs, r, term_g, trunc_g, info = genv.step(op["a"])
            s2, term, trunc, want_r, ok = self._refine(res, props, mdp, cur_s, ep, op["a"], obs, r, (term_g, trunc_g), plan)
            tr.ev("step", a=op["a"], r=r, term=term_g, trunc=trunc_g, obs0=float(obs[0]))
            typed = isinstance(r, float) and isinstance(term_g, bool) and isinstance(trunc_g, bool) and isinstance(obs, np.ndarray)
            if not ok or not typed:
                self._fail13(res, props, "adapter_outputs", "gym_step_outputs_differ_from_environment" if typed else "gym_step_output_types", got=[r, term_g, trunc_g], expected=[want_r, term, trunc])
                if "C01" in props and not ok:
                    res.fail("C01", "step_flags", "gym_adapter_step_outputs", got=[r, term_g, trunc_g], expected=[want_r, term, trunc])
            else:
                res.ok("C13", "adapter_outputs")
                res.ok("C01", "step_flags")
            got_s = int(round(float(obs[0])))
            if term or trunc:
                okk = got_s in mdp.init and np.allclose(obs, mdp.obs_row(got_s))
                ep = 0
            else:
                okk = got_s == s2 and np.allclose(obs, mdp.obs_row(s2))
                ep += 1
            if not okk:
                self._fail13(res, props, "adapter_outputs", "gym_observation_not_of_current_state", got=got_s, expected=s2, done=term or trunc)
                if "C01" in props:
                    res.fail("C01", "step_obs_of_returned_state", "gym_adapter_observation", got=got_s)
            else:
                res.ok("C01", "step_obs_of_returned_state")
            cur_s = got_s
            res.steps += 1
        # seeding contract (Gymnasium): reset(seed=s) re-seeds the generator, so a USED adapter and a fresh one give the same
        # trajectory from the same seed and actions — for every seed of the plan (episode ends draw new initial states, so
        # the key stream after the reset is visible in the trajectory)
        seeds = []
        for o in plan["ops"]:
            if o["op"] == "reset" and o["key"] not in seeds:
                seeds.append(o["key"])
        acts = [o["a"] for o in plan["ops"] if o["op"] == "step"] or [0]
        for sd in seeds[:4]:
            g2 = LeraxToGymEnv(env)
            o1, _ = genv.reset(seed=sd)
            o2, _ = g2.reset(seed=sd)
            K = 10
            traj1 = [o1.tolist()] + [genv.step(acts[i % len(acts)])[0].tolist() for i in range(K)]
            traj2 = [o2.tolist()] + [g2.step(acts[i % len(acts)])[0].tolist() for i in range(K)]
            tr.ev("seed_contract", seed=sd, same=traj1 == traj2)
            res.events["E.reseed_used_adapter"] += 1
            if sd == 0:
                res.events["E.reseed_zero"] += 1
            if traj1 != traj2:
                self._fail13(res, props, "adapter_outputs", "same_seed_different_trajectory", seed=sd)
            else:
                res.ok("C13", "adapter_seed_contract")
        return res

    def _exec_lerax_to_gymnax(self, plan, props) -> RunResult:
        from lerax.compatibility.gymnax import LeraxToGymnaxEnv

        res = RunResult(Trace())
        tr = res.trace
        env = self._lerax_env(plan)
        mdp = RefMDP("discrete", (self.A,), plan["world"], time_limit=int(plan["time_limit"]) if self.has_tl else None)
        gx = LeraxToGymnaxEnv(env)
        params = gx.default_params
        state, cur_s, ep = None, None, 0
        for op in plan["ops"]:
            if op["op"] == "reset":
                obs, state = gx.reset_env(jr.key(op["key"]), params)
                cur_s, ep = int(state.env_state.unwrapped.s), 0
                tr.ev("reset", s=cur_s)
                if cur_s not in mdp.init or not np.allclose(np.asarray(obs), mdp.obs_row(cur_s)) or int(state.time) != 0:
                    self._fail13(res, props, "adapter_outputs", "gymnax_reset_not_initial", s=cur_s)
                else:
                    res.ok("C13", "adapter_outputs")
                continue
            if state is None:
                continue
            t_before = int(state.time)
            obs, state, r, done, info = gx.step_env(jr.key(op["key"]), state, op["a"], params)
            s2, term, trunc, want_r, ok = self._refine(res, props, mdp, cur_s, ep, op["a"], obs, float(r), None, plan)
            tr.ev("step", a=op["a"], r=float(r), done=bool(done))
            if not ok or bool(done) != (term or trunc) or int(state.time) != t_before + 1:
                self._fail13(res, props, "adapter_outputs", "gymnax_step_outputs_differ_from_environment", got=[float(r), bool(done)], expected=[want_r, term or trunc])
            else:
                res.ok("C13", "adapter_outputs")
            got_s = int(state.env_state.unwrapped.s)
            if term or trunc:
                okk = got_s in mdp.init
                ep = 0
            else:
                okk = got_s == s2
                ep += 1
            if not okk or not np.allclose(np.asarray(obs), mdp.obs_row(got_s)):
                self._fail13(res, props, "adapter_outputs", "gymnax_observation_or_state_wrong", got=got_s, expected=s2)
            cur_s = got_s
            res.steps += 1
        return res

    # ---- GymnaxToLeraxEnv against the real gymnax CartPole twin
    def _gx_action(self, a: int):
        return jnp.asarray([0.1 * (2 * a - 1), 0.05], dtype=float) if getattr(self, "gx_box", False) else jnp.asarray(a)

    @staticmethod
    def _gx_state_equal(a, b) -> bool:
        la, lb = jax.tree.leaves(a), jax.tree.leaves(b)
        return len(la) == len(lb) and all(np.allclose(np.asarray(x, dtype=np.float64), np.asarray(y, dtype=np.float64), rtol=1e-5, atol=1e-6) for x, y in zip(la, lb))

    def _exec_gymnax_to_lerax(self, plan, props) -> RunResult:
        res = RunResult(Trace())
        tr = res.trace
        env = self.env
        st = None
        twin = None
        for op in plan["ops"]:
            key = jr.key(op["key"])
            if op["op"] == "reset":
                st = env.initial(key=key)
                obs_t, twin = self._gx_reset(key)
                if (not np.allclose(np.asarray(st.observation), np.asarray(obs_t), atol=1e-6) or not np.allclose(np.asarray(env.observation(st, key=key)), np.asarray(obs_t), atol=1e-6)
                        or not self._gx_state_equal(st.env_state, twin)):
                    self._fail13(res, props, "adapter_outputs", "gymnax_twin_reset_differs")
                    if "C01" in props:
                        res.fail("C01", "reset_initial", "adapter_reset_is_not_an_initial_state_of_the_adapted_environment")
                else:
                    res.ok("C13", "adapter_outputs")
                    res.ok("C01", "reset_initial")
                if self.cls.get("params"):
                    res.events["E.gymnax_nondefault_params"] += 1
                tr.ev("reset")
                continue
            if st is None:
                continue
            act = self._gx_action(op["a"])
            nxt = env.transition(st, act, key=key)
            obs_t, twin2, r_t, done_t, _ = self._gx_step(key, twin, act)
            r = env.reward(st, act, nxt, key=key)
            term = env.terminal(nxt, key=key)
            # the twin runs jitted, the adapter eagerly: allow floating-point re-association
            same = np.allclose(np.asarray(nxt.observation), np.asarray(obs_t), rtol=1e-5, atol=1e-6) and close(float(r), float(r_t)) and bool(term) == bool(done_t)
            tr.ev("step", a=op["a"], r=float(r), done=bool(term))
            if bool(done_t):
                res.events["E.term"] += 1
            if not same:
                self._fail13(res, props, "adapter_outputs", "gymnax_twin_step_differs", got=[float(r), bool(term)], expected=[float(r_t), bool(done_t)])
            else:
                res.ok("C13", "adapter_outputs")
            if bool(done_t):
                st = env.initial(key=key)
                _, twin = self._gx_reset(key)
                if not self._gx_state_equal(st.env_state, twin):
                    self._fail13(res, props, "adapter_outputs", "gymnax_twin_reset_differs", after="episode end")
                    if "C01" in props:
                        res.fail("C01", "reset_initial", "adapter_reset_is_not_an_initial_state_of_the_adapted_environment")
            else:
                st, twin = nxt, twin2
            res.steps += 1
        return res
