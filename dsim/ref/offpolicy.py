"""RefCollectorOff / RefRing / RefTD / RefSchedule — relation checks for off-policy learners.

NumPy only.
"""

from __future__ import annotations

from dataclasses import dataclass, field

import numpy as np

from .mdp import RefMDP, close


@dataclass
class OffNode:
    cur_s: int
    ep_step: int = 0
    pol_k: int = 0
    inserted: int = 0  # transitions this node has stored so far
    checked: int = 0  # how many of them the reference has already verified
    ep_done: bool = False
    lost: bool = False  # rows were overwritten before the reference saw them: statistics unknowable
    k_known: bool = True
    # RefLogger on true rewards
    log_step: int = 0
    ep_ret: float = 0.0
    ep_len: int = 0
    avg_ret: float = 0.0
    avg_len: float = 0.0
    alt_ep_ret: float = 0.0
    alt_avg_ret: float = 0.0
    rows: list = field(default_factory=list)  # verified chain (dicts), newest last


def check_node_buffer(res, props: set, mdp: RefMDP, node: OffNode, i: int, buf: dict, cap: int, expected_position: int, alpha: float, trace=None):
    """Verify the rows node ``i`` inserted since the last check and advance the chain.

    ``buf`` (NumPy, this node): position, obs_ids[cap], obs_rows[cap,D], next_ids[cap],
    next_rows[cap,D], actions[cap,...], rewards[cap], dones[cap], timeouts[cap],
    k[cap], next_k[cap]; carried: env_s, env_t, tl_count, pol_k_after, log_*.
    """
    E = res.events
    want05 = "C05" in props
    want06 = "C06" in props
    pos = int(buf["position"])
    if pos != expected_position:
        if want05:
            which = "warmup_count" if node.inserted == 0 and node.checked == 0 else "per_iteration_count"
            res.fail("C05", which, "position_mismatch", node=i, got=pos, expected=expected_position)
        # cannot attribute rows reliably
        node.inserted = pos
        node.checked = pos
        return False
    else:
        res.ok("C05", "per_iteration_count")
    new_from = node.checked
    node.inserted = pos
    if pos > cap:
        E["E.wrap"] += 1
        if pos > 2 * cap:
            E["E.wrap_multi"] += 1
    elif pos < cap:
        E["E.partial_fill"] += 1
    first_visible = max(0, pos - cap)
    for m in range(new_from, pos):
        idx = m % cap
        visible = m >= first_visible
        if not visible:
            # overwritten before the reference could see it: the chain cannot be followed;
            # re-anchor at the first visible row (counts as a probe, not a verdict)
            res.probes["rows_overwritten_unseen"] += 1
            node.cur_s = int(buf["obs_ids"][first_visible % cap])
            # episode clock and policy clock unknown until the next reset; logger history lost
            node.ep_step = -10**6
            node.k_known = False
            node.lost = True
            node.log_step += 1
            node.ep_done = False
            continue
        s = int(buf["obs_ids"][idx])
        s2 = int(buf["next_ids"][idx])
        a = buf["actions"][idx]
        r_st = float(buf["rewards"][idx])
        done = bool(buf["dones"][idx])
        timeout = bool(buf["timeouts"][idx])
        anchored = node.ep_step >= 0
        if s != node.cur_s:
            if want05:
                res.fail("C05", "chain_after_done_fresh" if node.ep_done else "row_obs_action", "obs_not_of_current_state", node=i, m=m, got=s, expected=node.cur_s)
            node.cur_s = s
        else:
            res.ok("C05", "row_obs_action")
        if not (0 <= s < mdp.NS and 0 <= s2 < mdp.NS):
            if want05:
                res.fail("C05", "row_obs_action", "obs_id_out_of_range", node=i, m=m)
            continue
        if not np.allclose(buf["obs_rows"][idx], mdp.obs_row(s), atol=1e-6) or not np.allclose(buf["next_rows"][idx], mdp.obs_row(s2), atol=1e-6):
            if want05:
                res.fail("C05", "row_obs_action", "obs_row_torn", node=i, m=m)
            if want06:
                res.fail("C06", "row_intact", "obs_row_torn_in_vivo", node=i, m=m)
        e = mdp.clip(a)
        oob = not mdp.in_bounds(a)
        if oob:
            E["E.oob_action"] += 1
        legal = mdp.successors(s, e)
        if s2 not in legal:
            if want05:
                if oob and s2 in mdp.successors(s, a):
                    res.fail("C05", "row_next_obs_prereset", "driven_by_unclipped_action", node=i, m=m, s=s, s2=s2)
                elif done and s2 in mdp.init and s2 not in legal:
                    res.fail("C05", "row_next_obs_prereset", "post_reset_observation_stored", node=i, m=m, s=s, s2=s2, legal=legal)
                else:
                    res.fail("C05", "row_next_obs_prereset", "successor_not_legal", node=i, m=m, s=s, s2=s2, legal=legal)
        else:
            res.ok("C05", "row_next_obs_prereset")
        ep = node.ep_step + 1
        term, trunc = mdp.flags(s2, ep if anchored else 0)
        tl_unknown = (not anchored) and mdp.time_limit is not None
        r_ref = mdp.reward(s, e, s2)
        if not close(r_st, r_ref, rel=2e-5):
            if want05:
                cause = "reward_mismatch"
                if oob and close(r_st, -64.0):
                    cause = "reward_from_unclipped_action"
                elif oob:
                    r_un = float(mdp.rew[s, mdp.decode(e)[0], s2]) + float(mdp.rew_w[s]) * float(np.sum(np.asarray(a, dtype=np.float64)))
                    if close(r_st, r_un, rel=2e-5):
                        cause = "reward_from_unclipped_action"
                res.fail("C05", "row_reward_of_clipped", cause, node=i, m=m, s=s, s2=s2, action=np.asarray(a).tolist(), got=r_st, expected=r_ref)
        else:
            res.ok("C05", "row_reward_of_clipped")
        if not tl_unknown:
            if done != (term or trunc):
                if want05:
                    tl_edge = mdp.time_limit is not None and abs(ep - mdp.time_limit) <= 1 and not term and not bool(mdp.trunc[s2])
                    res.fail("C05", "row_done", "timelimit_not_at_step_N" if tl_edge else "done_flag_mismatch", node=i, m=m, s2=s2, ep_step=ep, got=done, term=term, trunc=trunc)
            else:
                res.ok("C05", "row_done")
            if timeout != (trunc and not term):
                if want05:
                    cause = "timeout_on_termination" if term and timeout else ("timeout_missing" if trunc and not term else "timeout_without_truncation")
                    res.fail("C05", "row_timeout", cause, node=i, m=m, s2=s2, got=timeout, term=term, trunc=trunc)
            else:
                res.ok("C05", "row_timeout")
        # policy states of the row
        if not node.k_known:
            if int(buf["next_k"][idx]) != int(buf["k"][idx]) + 1 and want05:
                res.fail("C05", "row_obs_action", "policy_state_of_row", node=i, m=m, got=[int(buf["k"][idx]), int(buf["next_k"][idx])])
            node.pol_k = int(buf["k"][idx])
        elif int(buf["k"][idx]) != node.pol_k or int(buf["next_k"][idx]) != node.pol_k + 1:
            if want05:
                res.fail("C05", "policy_fresh_after_done" if node.pol_k == 0 and node.ep_done else "row_obs_action", "policy_state_of_row", node=i, m=m, got=[int(buf["k"][idx]), int(buf["next_k"][idx])], expected=[node.pol_k, node.pol_k + 1])
        else:
            res.ok("C05", "policy_fresh_after_done")
        # events
        if term and trunc:
            E["E.both"] += 1
        elif term:
            E["E.term"] += 1
        elif trunc:
            E["E.trunc_tl" if (mdp.time_limit is not None and anchored and ep >= mdp.time_limit) else "E.trunc_env"] += 1
        if done and ep == 1:
            E["E.done_first_step"] += 1
        if trace is not None:
            trace.ev("row", node=i, m=m, s=s, a=np.asarray(a).tolist(), r=r_st, s2=s2, done=done, timeout=timeout)
        # logger on true rewards
        node.log_step += 1
        node.ep_ret = (0.0 if node.ep_done else node.ep_ret) + r_ref
        node.alt_ep_ret = (0.0 if node.ep_done else node.alt_ep_ret) + r_st
        node.ep_len = (0 if node.ep_done else node.ep_len) + 1
        if done:
            node.avg_ret = alpha * node.ep_ret + (1 - alpha) * node.avg_ret
            node.alt_avg_ret = alpha * node.alt_ep_ret + (1 - alpha) * node.alt_avg_ret
            node.avg_len = alpha * node.ep_len + (1 - alpha) * node.avg_len
        node.ep_done = done
        node.rows.append({"m": m, "s": s, "a": np.asarray(a).tolist(), "r": r_st, "s2": s2, "done": done, "timeout": timeout})
        if done:
            node.ep_step = 0
            node.pol_k = 0
            node.k_known = True
            node.cur_s = None  # next row (or carried state) must be a fresh initial state
        else:
            node.ep_step = ep
            node.pol_k += 1
            node.cur_s = s2
        # resolve "fresh initial state" from what follows
        nxt_s = int(buf["obs_ids"][(m + 1) % cap]) if m + 1 < pos else int(buf["env_s"])
        if node.cur_s is None:
            if nxt_s not in mdp.init:
                if want05:
                    res.fail("C05", "chain_after_done_fresh", "state_after_done_not_initial", node=i, m=m, got=nxt_s)
            else:
                res.ok("C05", "chain_after_done_fresh")
            node.cur_s = nxt_s
    node.checked = pos
    res.steps += pos - new_from
    # ---- carried state continues the chain
    if want05 and node.ep_step >= 0:
        if int(buf["env_s"]) != node.cur_s:
            res.fail("C05", "chain_after_done_fresh" if node.ep_done else "row_obs_action", "carried_state_not_successor", node=i, got=int(buf["env_s"]), expected=node.cur_s)
        if int(buf["env_t"]) != node.ep_step:
            res.fail("C05", "chain_after_done_fresh", "env_clock", node=i, got=int(buf["env_t"]), expected=node.ep_step)
        if buf.get("tl_count") is not None and int(buf["tl_count"]) != node.ep_step:
            res.fail("C05", "chain_after_done_fresh", "timelimit_counter", node=i, got=int(buf["tl_count"]), expected=node.ep_step)
        if int(buf["pol_k_after"]) != node.pol_k:
            res.fail("C05", "policy_fresh_after_done", "carried_policy_state", node=i, got=int(buf["pol_k_after"]), expected=node.pol_k)
    # ---- C06 in vivo: the buffer holds exactly the most recent min(n, C) verified rows
    if want06:
        keep = node.rows[-min(pos, cap):] if pos else []
        okk = True
        for row in keep:
            idx = row["m"] % cap
            if int(buf["obs_ids"][idx]) != row["s"] or int(buf["next_ids"][idx]) != row["s2"] or not close(buf["rewards"][idx], row["r"]) \
                    or bool(buf["dones"][idx]) != row["done"] or bool(buf["timeouts"][idx]) != row["timeout"]:
                res.fail("C06", "most_recent_kept", "older_row_damaged_in_vivo", node=i, m=row["m"])
                okk = False
                break
        if okk:
            res.ok("C06", "most_recent_kept")
        node.rows = node.rows[-cap:]
    # ---- C19: logger on true rewards
    if "C19" in props and "log_step" in buf and node.lost:
        res.probes["logger_check_skipped_rows_lost"] += 1
    if "C19" in props and "log_step" in buf and not node.lost:
        terms = max(4, node.log_step)
        bad = False
        if int(buf["log_step"]) != node.log_step or int(buf["log_ep_len"]) != node.ep_len:
            res.fail("C19", "length_count", "step_or_length_counter", node=i, got=[int(buf["log_step"]), int(buf["log_ep_len"])], expected=[node.log_step, node.ep_len])
            bad = True
        if not close(buf["log_avg_len"], node.avg_len, terms=terms):
            res.fail("C19", "ema_at_episode_end", "average_length", node=i)
            bad = True
        if not (close(buf["log_ep_ret"], node.ep_ret, terms=terms) and close(buf["log_avg_ret"], node.avg_ret, terms=terms)):
            alt = close(buf["log_ep_ret"], node.alt_ep_ret, terms=terms) and close(buf["log_avg_ret"], node.alt_avg_ret, terms=terms)
            res.fail("C19", "sum_of_true_rewards", "stored_reward_differs_from_true_reward" if alt else "average_return", node=i,
                     got=[float(buf["log_ep_ret"]), float(buf["log_avg_ret"])], expected=[node.ep_ret, node.avg_ret])
            bad = True
        if not bad:
            for c in ("ema_at_episode_end", "sum_of_true_rewards", "length_count", "per_node"):
                res.ok("C19", c)
    return True


# --------------------------------------------------------------------------- RefTD (DQN)


def dqn_reference_step(q_online, q_target, rows, gamma: float, lr: float, qbias=None):
    """One full-batch SGD step of the Double-DQN regression on tabular Q (float64).

    rows: list of dict(s, a, r, s2, done, timeout[, k, k2]).  Returns (new_q, loss, targets).
    With ``qbias`` (constant, shared by online and target network) Q(h, s) = table[s] + qbias[min(k, KB-1)]: the transition's
    own policy state k evaluates the action taken, the successor policy state k2 = k + 1 evaluates both networks at s'.
    """
    q = np.asarray(q_online, dtype=np.float64)
    qt = np.asarray(q_target, dtype=np.float64)
    qb = np.zeros((3, q.shape[1])) if qbias is None else np.asarray(qbias, dtype=np.float64)
    bias = lambda k: qb[min(int(k), qb.shape[0] - 1)]  # noqa: E731
    B = len(rows)
    grad = np.zeros_like(q)
    loss = 0.0
    targets = []
    for row in rows:
        s, a, s2 = row["s"], int(row["a"]), row["s2"]
        # ground truth scheduled by the simulator when available, else the stored flags
        terminated = row["term_true"] if "term_true" in row else (row["done"] and not row["timeout"])
        b2 = bias(row.get("k2", 0))
        a_star = int(np.argmax(q[s2] + b2))
        y = row["r"] + gamma * (0.0 if terminated else 1.0) * (qt[s2, a_star] + b2[a_star])
        targets.append(y)
        d = q[s, a] + bias(row.get("k", 0))[a] - y
        loss += d * d
        grad[s, a] += d / B
    loss = loss / B / 2
    return q - lr * grad, loss, targets


def argmax_gap(q, rows, qbias=None) -> float:
    """Smallest gap between best and second-best online Q over the successor states used."""
    q = np.asarray(q, dtype=np.float64)
    qb = np.zeros((3, q.shape[1])) if qbias is None else np.asarray(qbias, dtype=np.float64)
    g = np.inf
    for row in rows:
        v = np.sort(q[row["s2"]] + qb[min(int(row.get("k2", 0)), qb.shape[0] - 1)])[::-1]
        if len(v) > 1:
            g = min(g, v[0] - v[1])
    return float(g)
