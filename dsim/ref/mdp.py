"""NumPy (float64) reference interpreter of SimMDP tables and table policies.

Imports NumPy only — it never calls lerax or JAX, so it cannot share a bug with them.
"""

from __future__ import annotations

import math

import numpy as np

POISON_REWARD = -64.0
KB = 3


def close(x, y, rel=1e-5, terms=1) -> bool:
    x = float(x)
    y = float(y)
    if math.isnan(x) or math.isnan(y):
        return False
    if math.isinf(x) or math.isinf(y):
        return x == y
    return abs(x - y) <= rel * terms * max(1.0, abs(y))


class RefMDP:
    def __init__(self, kind: str, comps, tables: dict, box_low=-1.0, box_high=1.0, time_limit=None, outer=None):
        self.kind = kind
        self.comps = tuple(comps)
        self.A = int(np.prod(self.comps))
        self.succ = np.asarray(tables["succ"], dtype=int)
        self.rew = np.asarray(tables["rew"], dtype=np.float64)
        self.rew_w = np.asarray(tables["rew_w"], dtype=np.float64)
        self.term = np.asarray(tables["term"], dtype=bool)
        self.trunc = np.asarray(tables["trunc"], dtype=bool)
        self.mask = None if tables.get("mask") is None else np.asarray(tables["mask"], dtype=bool)
        self.init = set(int(i) for i in tables["init"])
        self.obs = np.asarray(tables["obs"], dtype=np.float64)
        self.NS = self.succ.shape[0]
        self.poison = self.NS - 1
        self.low = np.float32(box_low)
        self.high = np.float32(box_high)
        # `outer = (m, M)`: the environment is seen from outside a RescaleAction(m, M) — actions arrive in [m, M] and are mapped
        # affinely onto the inner box before they are bucketed / rewarded; `low` / `high` then describe the OUTER space
        self.outer = None
        self.ilow, self.ihigh = self.low, self.high
        if outer is not None:
            self.outer = (float(outer[0]), float(outer[1]))
            self.low, self.high = np.float32(outer[0]), np.float32(outer[1])
        width = (box_high - box_low) if np.isfinite(box_high - box_low) else 2.0
        self.scale = np.float32(self.comps[0] / width)
        self.anchor = self.ilow if np.isfinite(self.ilow) else np.float32(self.ihigh - 2.0)
        self.time_limit = time_limit  # None or int N

    # ----------------------------------------------------------------- actions

    def clip(self, action):
        """What a bounds-clip of a Box action gives (float32, like jnp.clip)."""
        if self.kind not in ("box", "boxscalar"):
            return np.asarray(action)
        return np.clip(np.asarray(action, dtype=np.float32), self.low, self.high)

    def in_bounds(self, action) -> bool:
        if self.kind not in ("box", "boxscalar"):
            return True
        x = np.asarray(action, dtype=np.float32).reshape(-1)
        return bool(np.all(x >= self.low) and np.all(x <= self.high) and np.all(np.isfinite(x)))

    def inner(self, action):
        """The action the innermost environment receives (identity unless seen through a RescaleAction)."""
        if self.outer is None or self.kind not in ("box", "boxscalar"):
            return action
        m, M = self.outer
        x = np.asarray(action, dtype=np.float32)
        return (np.float32(self.ilow) + (x - np.float32(m)) * np.float32((float(self.ihigh) - float(self.ilow)) / (M - m))).astype(np.float32)

    def decode(self, action) -> tuple[int, bool]:
        """Joint action index of an action as the environment receives it, and legality."""
        if self.kind == "discrete":
            a = int(np.asarray(action))
            ok = 0 <= a < self.comps[0]
            return min(max(a, 0), self.comps[0] - 1), ok
        if self.kind in ("multidiscrete", "multibinary"):
            c = np.asarray(action).astype(int).reshape(-1)
            ok = all(0 <= int(c[j]) < self.comps[j] for j in range(len(self.comps)))
            a = 0
            for j, nj in enumerate(self.comps):
                a = a * nj + min(max(int(c[j]), 0), nj - 1)
            return a, ok
        ok = self.in_bounds(np.asarray(action, dtype=np.float32).reshape(-1))
        x = np.asarray(self.inner(action), dtype=np.float32).reshape(-1)
        with np.errstate(invalid="ignore", over="ignore"):
            b = np.floor((x - self.anchor) * self.scale)
        a = 0
        for j, nj in enumerate(self.comps):
            bj = b[j]
            bj = 0 if not np.isfinite(bj) else int(min(max(bj, 0), nj - 1))
            a = a * nj + bj
        return a, ok

    def allowed(self, s: int, action) -> bool:
        if self.mask is None:
            return True
        m = self.mask[s]
        if self.kind == "discrete":
            a = int(np.asarray(action))
            return 0 <= a < self.comps[0] and bool(m[a])
        c = np.asarray(action).astype(int).reshape(-1)
        if self.kind == "multidiscrete":
            off = 0
            for j, nj in enumerate(self.comps):
                if not (0 <= int(c[j]) < nj and m[off + int(c[j])]):
                    return False
                off += nj
            return True
        if self.kind == "multibinary":
            return all(bool(m[j]) or int(c[j]) == 0 for j in range(len(self.comps)))
        return True

    # ----------------------------------------------------------------- dynamics

    def successors(self, s: int, action) -> list[int]:
        """Legal successors of executing ``action`` (as received by the environment)."""
        a, ok = self.decode(action)
        if not ok or not self.allowed(s, action):
            return [self.poison]
        return sorted(set(int(x) for x in self.succ[s, a]))

    def reward(self, s: int, action, s2: int) -> float:
        a, ok = self.decode(action)
        if not ok or not self.allowed(s, action):
            return POISON_REWARD
        r = float(self.rew[s, a, s2])
        if self.kind in ("box", "boxscalar"):
            r += float(self.rew_w[s]) * float(np.sum(np.asarray(self.inner(action), dtype=np.float32).astype(np.float64)))
        return r

    def flags(self, s2: int, ep_step: int) -> tuple[bool, bool]:
        """(terminal, truncated) of arriving in ``s2`` as the ``ep_step``-th step of an episode."""
        term = bool(self.term[s2])
        trunc = bool(self.trunc[s2])
        if self.time_limit is not None and ep_step >= self.time_limit:
            trunc = True
        return term, trunc

    def obs_row(self, s: int) -> np.ndarray:
        return self.obs[s]


class RefTablePolicy:
    def __init__(self, kind: str, comps, tables: dict):
        self.kind = kind
        self.comps = tuple(comps)
        self.logits = np.asarray(tables["logits"], dtype=np.float64)
        self.kbias = np.asarray(tables["kbias"], dtype=np.float64)
        self.values = np.asarray(tables["values"], dtype=np.float64)
        self.vbias = np.asarray(tables.get("vbias", [0.0] * KB), dtype=np.float64)
        self.scale = np.asarray(tables["scale"], dtype=np.float64)

    def value(self, s: int, k: int = 0) -> float:
        """Critic value of state ``s`` evaluated with policy state ``k`` (calls since the policy's reset)."""
        return float(self.values[s]) + float(self.vbias[min(int(k), KB - 1)])

    def params(self, s: int, k: int) -> np.ndarray:
        return self.logits[s] + self.kbias[min(int(k), KB - 1)]

    @staticmethod
    def _log_softmax(z: np.ndarray) -> np.ndarray:
        m = np.max(z[np.isfinite(z)]) if np.any(np.isfinite(z)) else 0.0
        with np.errstate(divide="ignore"):
            return z - m - np.log(np.sum(np.exp(z - m)))

    def probs(self, s: int, k: int, mask=None) -> list[np.ndarray]:
        """Per-component probability vectors (discrete kinds) under the mask."""
        p = self.params(s, k)
        out = []
        if self.kind == "discrete":
            z = p.copy()
            if mask is not None:
                z[~np.asarray(mask, dtype=bool)] = -np.inf
            out.append(np.exp(self._log_softmax(z)))
        elif self.kind == "multidiscrete":
            off = 0
            for nj in self.comps:
                z = p[off : off + nj].copy()
                if mask is not None:
                    z[~np.asarray(mask[off : off + nj], dtype=bool)] = -np.inf
                out.append(np.exp(self._log_softmax(z)))
                off += nj
        elif self.kind == "multibinary":
            for j in range(len(self.comps)):
                q = 1.0 / (1.0 + math.exp(-p[j]))
                if mask is not None and not bool(mask[j]):
                    q = 0.0
                out.append(np.array([1.0 - q, q]))
        return out

    def log_prob(self, s: int, k: int, action, mask=None) -> float:
        p = self.params(s, k)
        if self.kind in ("box", "boxscalar"):
            a = np.asarray(action, dtype=np.float64).reshape(-1)
            sc = self.scale[s]
            z = (a - p) / sc
            return float(np.sum(-0.5 * z * z - np.log(sc) - 0.5 * math.log(2 * math.pi)))
        comps = self.probs(s, k, mask)
        c = np.asarray(action).astype(int).reshape(-1)
        lp = 0.0
        for j, pj in enumerate(comps):
            cj = int(c[j])
            if cj < 0 or cj >= len(pj) or pj[cj] <= 0.0:
                return -math.inf
            lp += math.log(pj[cj])
        return lp

    def modes(self, s: int, k: int, mask=None) -> list[set[int]]:
        """Per component: the set of maximisers of the masked probabilities (ties allowed)."""
        out = []
        for pj in self.probs(s, k, mask):
            mx = float(np.max(pj))
            out.append({int(i) for i in range(len(pj)) if pj[i] >= mx - 1e-7 * max(1.0, mx)})
        return out


def ref_gae(rewards, values, dones, last_value, gamma, lam) -> tuple[np.ndarray, np.ndarray]:
    """The definition in the statement of C03, for one stream (float64)."""
    r = np.asarray(rewards, dtype=np.float64)
    v = np.asarray(values, dtype=np.float64)
    d = np.asarray(dones, dtype=bool)
    T = r.shape[0]
    adv = np.zeros(T, dtype=np.float64)
    nxt_adv = 0.0
    nxt_v = float(last_value)
    for t in range(T - 1, -1, -1):
        nd = 0.0 if d[t] else 1.0
        delta = r[t] + gamma * nd * nxt_v - v[t]
        adv[t] = delta + gamma * lam * nd * nxt_adv
        nxt_adv = adv[t]
        nxt_v = v[t]
    return adv, adv + v
