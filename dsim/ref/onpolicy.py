"""RefCollectorOn / RefGAE / RefLogger: relation checks over a recorded on-policy rollout.

NumPy only.  The checker never predicts a random draw: sampled actions, transition
branches and initial states are read back from the record and checked for legality and for
every deterministic consequence.
"""

from __future__ import annotations

from dataclasses import dataclass, field

import numpy as np

from .mdp import RefMDP, RefTablePolicy, close, ref_gae


@dataclass
class NodeRef:
    """What the reference knows about one environment node between operations."""

    cur_s: int
    ep_step: int = 0  # transitions since the last environment reset
    pol_k: int = 0  # policy calls since the last policy reset
    # RefLogger
    log_step: int = 0
    ep_ret: float = 0.0
    ep_len: int = 0
    ep_done: bool = False
    avg_ret: float = 0.0
    avg_len: float = 0.0
    # the same statistics computed from the rewards the algorithm stored (diagnosis only)
    alt_ep_ret: float = 0.0
    alt_avg_ret: float = 0.0
    # all (episode_return, average_return) pairs consistent with the record: a done step of a
    # stochastic transition does not reveal its successor, so the true reward can be ambiguous
    ret_states: set = field(default_factory=lambda: {(0.0, 0.0)})
    ret_overflow: bool = False
    # true (un-bootstrapped) reward history of the current rollout, for reports
    history: list = field(default_factory=list)


def check_initial(res, mdp: RefMDP, node: NodeRef, i: int, env_t: int, tl_count, pol_k: int, P="C04"):
    if node.cur_s not in mdp.init:
        res.fail(P, "env_fresh_after_done", "reset_state_not_initial", node=i, s=node.cur_s)
    if env_t != 0 or (tl_count is not None and tl_count != 0):
        res.fail(P, "env_fresh_after_done", "reset_clock_not_zero", node=i, env_t=env_t, tl=tl_count)
    if pol_k != 0:
        res.fail(P, "policy_fresh_after_done", "reset_policy_state", node=i, k=pol_k)


def check_node_rollout(
    res,
    props: set,
    mdp: RefMDP,
    pol: RefTablePolicy | None,
    node: NodeRef,
    i: int,
    rec: dict,
    gamma: float,
    lam: float,
    alpha: float,
    trace=None,
    reeval: dict | None = None,
):
    """Check one node's recorded rollout against the reference; update ``node``.

    ``rec`` (all NumPy, this node only): obs_ids[T], obs_rows[T,D], actions[T,...],
    rewards[T], dones[T], log_probs[T], values[T], pol_k[T], masks[T,M]|None,
    returns[T], advantages[T]; carried state after the rollout: env_s, env_t, tl_count
    (or None), pol_k_after, and logger fields log_*.
    """
    T = len(rec["rewards"])
    E = res.events
    true_rewards = []
    ref_total = []  # reward (+ time-out bootstrap) the interaction itself implies for each step, None where unknown
    want04 = "C04" in props
    want16 = "C16" in props
    for t in range(T):
        s = int(rec["obs_ids"][t])
        a = rec["actions"][t]
        done = bool(rec["dones"][t])
        r_st = float(rec["rewards"][t])
        last = t == T - 1
        next_s = int(rec["env_s"]) if last else int(rec["obs_ids"][t + 1])

        # -- observation acted on is the current state's observation
        if s != node.cur_s:
            if want04:
                res.fail("C04", "obs_is_acted_on", "obs_not_of_current_state", node=i, t=t, got=s, expected=node.cur_s)
            s_ok = False
        else:
            s_ok = True
            res.ok("C04", "obs_is_acted_on")
        if 0 <= s < mdp.NS and not np.allclose(rec["obs_rows"][t], mdp.obs_row(s), atol=1e-6):
            if want04:
                res.fail("C04", "obs_is_acted_on", "obs_row_torn", node=i, t=t, s=s)
        if not (0 <= s < mdp.NS):
            if want04:
                res.fail("C04", "obs_is_acted_on", "obs_id_out_of_range", node=i, t=t, got=s)
            return
        if s == mdp.poison:
            E["poison_visited"] += 1

        # -- mask recorded is the one offered
        mask_row = None
        if mdp.mask is not None:
            mask_row = mdp.mask[s]
            got = rec["masks"][t] if rec.get("masks") is not None else None
            if got is None or not np.array_equal(np.asarray(got, dtype=bool), mask_row):
                if want04:
                    res.fail("C04", "mask_recorded_is_offered", "mask_mismatch", node=i, t=t, s=s)
            else:
                res.ok("C04", "mask_recorded_is_offered")
            allowed = mdp.allowed(s, a)
            if int(np.sum(mask_row)) == 1 and mdp.kind == "discrete":
                E["E.mask_single"] += 1
            if not allowed:
                if want04:
                    res.fail("C04", "action_allowed", "masked_action_stored", node=i, t=t, s=s, action=np.asarray(a).tolist())
                if want16:
                    res.fail("C16", "masked_never_executed", "masked_action_in_rollout", node=i, t=t, s=s, action=np.asarray(a).tolist())
            else:
                res.ok("C04", "action_allowed")
                res.ok("C16", "masked_never_executed")

        # -- policy state stored is the pre-step state
        k_st = int(rec["pol_k"][t])
        if k_st != node.pol_k:
            if want04:
                cause = "policy_not_reset_after_done" if node.pol_k == 0 else ("post_step_state_stored" if k_st == node.pol_k + 1 else "mismatch")
                res.fail("C04", "policy_state_prestep" if node.pol_k else "policy_fresh_after_done", cause, node=i, t=t, got=k_st, expected=node.pol_k)
        else:
            res.ok("C04", "policy_state_prestep")

        if pol is not None:
            # -- value and log-prob of exactly that observation and stored action
            v_ref = pol.value(s, k_st)
            if not close(rec["values"][t], v_ref):
                if want04:
                    res.fail("C04", "value_of_obs", "value_mismatch", node=i, t=t, got=float(rec["values"][t]), expected=v_ref)
            else:
                res.ok("C04", "value_of_obs")
            lp_ref = pol.log_prob(s, k_st, a, mask_row)
            if not close(rec["log_probs"][t], lp_ref, rel=2e-5):
                if want04:
                    clipped = mdp.kind in ("box", "boxscalar") and bool(
                        np.any(np.asarray(a, dtype=np.float32) <= mdp.low) or np.any(np.asarray(a, dtype=np.float32) >= mdp.high)
                    )
                    res.fail(
                        "C04",
                        "logprob_of_stored_action",
                        "action_was_clipped" if clipped else "mismatch",
                        node=i, t=t, s=s, action=np.asarray(a).tolist(), got=float(rec["log_probs"][t]), expected=lp_ref,
                    )
            else:
                res.ok("C04", "logprob_of_stored_action")
        if reeval is not None:
            # re-evaluating the stored sample under the unchanged policy reproduces them
            if not close(rec["log_probs"][t], reeval["log_probs"][t], rel=2e-5) or not close(rec["values"][t], reeval["values"][t], rel=2e-5):
                if want04:
                    clipped = mdp.kind in ("box", "boxscalar") and bool(
                        np.any(np.asarray(a, dtype=np.float32) <= mdp.low) or np.any(np.asarray(a, dtype=np.float32) >= mdp.high)
                    )
                    res.fail(
                        "C04", "logprob_of_stored_action", "reeval_action_was_clipped" if clipped else "reeval_mismatch",
                        node=i, t=t, got=float(rec["log_probs"][t]), expected=float(reeval["log_probs"][t]),
                    )
            else:
                res.ok("C04", "logprob_of_stored_action")

        # -- the environment is driven, and its reward computed, with the clipped action
        e = mdp.clip(a)
        oob = not mdp.in_bounds(a)
        if oob:
            E["E.oob_action"] += 1
        if mdp.kind in ("box", "boxscalar") and bool(np.any(np.asarray(e) == mdp.low) or np.any(np.asarray(e) == mdp.high)):
            E["E.bound_corner"] += 1
        ep = node.ep_step + 1
        cands = []
        for s2 in mdp.successors(s, e):
            term, trunc = mdp.flags(s2, ep)
            r = mdp.reward(s, e, s2)
            # the bootstrap is V(successor observation) under the policy state carried OUT of this step (k + 1)
            boot = gamma * pol.value(s2, k_st + 1) if (pol is not None and trunc and not term) else 0.0
            cands.append({"s2": s2, "term": term, "trunc": trunc, "done": term or trunc, "r": r, "boot": boot})

        def matches(c, with_reward=True):
            if c["done"] != done:
                return False
            if not done and c["s2"] != next_s:
                return False
            if with_reward and pol is not None and not close(r_st, c["r"] + c["boot"], rel=2e-5):
                return False
            if with_reward and pol is None and not (close(r_st, c["r"], rel=2e-5) or (c["trunc"] and not c["term"])):
                return False
            return True

        good = [c for c in cands if matches(c)]
        if good:
            c = good[0]
            for chk in ("env_driven_by_clipped", "reward_of_clipped", "done_is_term_or_trunc", "chain_continues"):
                res.ok("C04", chk)
            if c["trunc"] and not c["term"]:
                res.ok("C04", "bootstrap_trunc_only")
            if c["term"]:
                res.ok("C04", "no_bootstrap_on_term")
        else:
            c = _diagnose(res, want04, mdp, pol, cands, s, a, e, oob, done, next_s, r_st, gamma, i, t, ep, s_ok, k_st)
        # events (from the chosen candidate)
        if c["term"] and c["trunc"]:
            E["E.both"] += 1
        elif c["term"]:
            E["E.term"] += 1
        elif c["trunc"]:
            if mdp.time_limit is not None and ep >= mdp.time_limit:
                E["E.trunc_tl"] += 1
            else:
                E["E.trunc_env"] += 1
        if done:
            if ep == 1:
                E["E.done_first_step"] += 1
            if last:
                E["E.done_last_rollout_step"] += 1
            if node.ep_done and ep == 1:
                E["E.done_consecutive"] += 1
        true_rewards.append(c["r"])
        # reward the interaction implies: from the successors consistent with the recorded flags / next state (the recorded
        # reward itself is not consulted), usable when they all agree
        struct_ok = [g for g in cands if matches(g, with_reward=False)]
        tot = sorted({round(g["r"] + g["boot"], 7) for g in struct_ok})
        ref_total.append(tot[0] if len(tot) == 1 else None)
        if trace is not None:
            trace.ev("step", node=i, t=t, s=s, a=np.asarray(a).tolist(), r=r_st, done=done, s2=c["s2"], term=c["term"], trunc=c["trunc"])

        # -- RefLogger on TRUE rewards
        node.log_step += 1
        true_rs = sorted({round(g["r"], 9) for g in good}) if good else [c["r"]]
        if len(true_rs) > 1:
            res.probes["ambiguous_true_reward"] += 1
        nxt = set()
        for (er, ar) in node.ret_states:
            for tr_ in true_rs:
                er2 = (0.0 if node.ep_done else er) + tr_
                ar2 = alpha * er2 + (1 - alpha) * ar if done else ar
                nxt.add((round(er2, 9), round(ar2, 9)))
        if len(nxt) > 512:
            # too many histories are consistent with the record (many hidden successors): the reference can no longer
            # enumerate them, so return statistics of this node are not judged any more (never guessed)
            node.ret_overflow = True
            nxt = set(sorted(nxt)[:512])
        node.ret_states = nxt
        node.ep_ret = (0.0 if node.ep_done else node.ep_ret) + c["r"]
        node.ep_len = (0 if node.ep_done else node.ep_len) + 1
        node.alt_ep_ret = (0.0 if node.ep_done else node.alt_ep_ret) + r_st
        if done:
            node.alt_avg_ret = alpha * node.alt_ep_ret + (1 - alpha) * node.alt_avg_ret
            node.avg_ret = alpha * node.ep_ret + (1 - alpha) * node.avg_ret
            node.avg_len = alpha * node.ep_len + (1 - alpha) * node.avg_len
        node.ep_done = done

        # -- advance the reference chain
        if done:
            if next_s not in mdp.init:
                if want04:
                    res.fail("C04", "env_fresh_after_done", "state_after_done_not_initial", node=i, t=t, got=next_s)
            else:
                res.ok("C04", "env_fresh_after_done")
            node.cur_s = next_s
            node.ep_step = 0
            node.pol_k = 0
        else:
            node.cur_s = next_s
            node.ep_step = ep
            node.pol_k += 1

    # ---- carried state after the rollout continues the same chain
    if want04:
        if int(rec["env_t"]) != node.ep_step:
            res.fail("C04", "env_fresh_after_done" if node.ep_step == 0 else "chain_continues", "env_clock", node=i, got=int(rec["env_t"]), expected=node.ep_step)
        if rec.get("tl_count") is not None and int(rec["tl_count"]) != node.ep_step:
            res.fail("C04", "timelimit_exact", "counter_not_restarted" if node.ep_step == 0 else "counter_drift", node=i, got=int(rec["tl_count"]), expected=node.ep_step)
        if int(rec["pol_k_after"]) != node.pol_k:
            res.fail("C04", "policy_fresh_after_done" if node.pol_k == 0 else "policy_state_prestep", "carried_policy_state", node=i, got=int(rec["pol_k_after"]), expected=node.pol_k)

    # ---- C03: GAE over the recorded stream of this node
    if "C03" in props and pol is not None:
        check_gae(res, rec, pol.value(int(rec["env_s"]), int(rec["pol_k_after"])), gamma, lam, i)
        # "nothing recorded after an episode end influences the estimates before it": the estimates must also equal GAE of the
        # rewards the interaction itself implies (reference reconstruction), not only GAE of whatever numbers were recorded
        if len(ref_total) == T and all(x is not None for x in ref_total):
            adv2, _ = ref_gae(ref_total, rec["values"], rec["dones"], pol.value(int(rec["env_s"]), int(rec["pol_k_after"])), gamma, lam)
            got = np.asarray(rec["advantages"], dtype=np.float64)
            tol = 2e-5 * max(T, 4) * max(1.0, float(np.max(np.abs(adv2))))
            if not np.all(np.abs(got - adv2) <= tol):
                rec_r = np.asarray(rec["rewards"], dtype=np.float64)
                bad_steps = [int(t) for t in np.where(np.abs(rec_r - np.asarray(ref_total)) > 1e-4 * np.maximum(1.0, np.abs(ref_total)))[0]]
                at_done = bool(bad_steps) and all(bool(rec["dones"][t]) for t in bad_steps)
                res.fail("C03", "cut_at_done", "estimates_before_an_episode_end_depend_on_what_follows_it" if at_done else "estimates_not_gae_of_the_interaction",
                         node=i, steps=bad_steps[:6], got=got.tolist(), expected=adv2.tolist())
            else:
                res.ok("C03", "cut_at_done")

    # ---- C19: logger statistics on true rewards
    if "C19" in props:
        check_logger(res, rec, node, i, T)
    res.steps += T
    return true_rewards


def _diagnose(res, want04, mdp, pol, cands, s, a, e, oob, done, next_s, r_st, gamma, i, t, ep, s_ok, k_st=0):
    """Name the clause that fails when no legal successor explains the recorded step."""
    detail = dict(node=i, t=t, s=s, action=np.asarray(a).tolist(), stored_reward=r_st, stored_done=done, next_s=next_s, ep_step=ep,
                  candidates=[{k: (float(v) if isinstance(v, float) else v) for k, v in c.items()} for c in cands])
    c0 = cands[0]
    if not want04 or not s_ok:
        return c0
    same_done = [c for c in cands if c["done"] == done]
    if not same_done:
        tl_edge = mdp.time_limit is not None and (ep == mdp.time_limit or ep == mdp.time_limit + 1 or ep == mdp.time_limit - 1)
        if tl_edge and not any(c["term"] or mdp.trunc[c["s2"]] for c in cands) and done != c0["done"]:
            res.fail("C04", "timelimit_exact", "truncation_not_at_step_N", **detail)
        elif all(c["trunc"] and not c["term"] for c in cands) and not done:
            res.fail("C04", "done_is_term_or_trunc", "truncation_not_in_done", **detail)
        elif all(c["term"] for c in cands) and not done:
            res.fail("C04", "done_is_term_or_trunc", "termination_not_in_done", **detail)
        else:
            res.fail("C04", "done_is_term_or_trunc", "done_flag_mismatch", **detail)
        return c0
    if not done:
        succ_ok = [c for c in same_done if c["s2"] == next_s]
        if not succ_ok:
            # which action would explain the successor?
            if oob and next_s in mdp.successors(s, a):
                res.fail("C04", "env_driven_by_clipped", "driven_by_unclipped_action", **detail)
            elif next_s == mdp.poison:
                res.fail("C04", "env_driven_by_clipped" if oob else "action_allowed", "poison_reached", **detail)
            else:
                res.fail("C04", "chain_continues", "successor_not_legal", **detail)
            return same_done[0]
        same_done = succ_ok
    # reward
    c = same_done[0]
    if pol is None:
        res.fail("C04", "reward_of_clipped", "reward_mismatch", **detail)
        return c
    v2 = gamma * pol.value(c["s2"], k_st + 1)
    for c in same_done:
        v2 = gamma * pol.value(c["s2"], k_st + 1)
        if c["boot"] != 0.0 and close(r_st, c["r"] + gamma * pol.value(c["s2"], 0), rel=2e-5) and abs(pol.value(c["s2"], 0) - pol.value(c["s2"], k_st + 1)) > 1e-4:
            res.fail("C04", "bootstrap_trunc_only", "bootstrap_value_under_reset_policy_state", **detail)
            return c
        if c["boot"] != 0.0 and close(r_st, c["r"], rel=2e-5):
            res.fail("C04", "bootstrap_trunc_only", "missing_bootstrap_on_timeout", **detail)
            return c
        if c["boot"] == 0.0 and close(r_st, c["r"] + v2, rel=2e-5) and abs(v2) > 1e-4:
            if c["term"] and c["trunc"]:
                res.fail("C04", "no_bootstrap_on_term", "term_and_trunc_same_step", **detail)
            elif c["term"]:
                res.fail("C04", "no_bootstrap_on_term", "term_only", **detail)
            else:
                res.fail("C04", "bootstrap_trunc_only", "bootstrap_without_truncation", **detail)
            return c
        if oob:
            r_un = mdp.rew[s, mdp.decode(e)[0], c["s2"]] + float(mdp.rew_w[s]) * float(np.sum(np.asarray(a, dtype=np.float64)))
            if close(r_st, r_un + c["boot"], rel=2e-5):
                res.fail("C04", "reward_of_clipped", "reward_from_unclipped_action", **detail)
                return c
    c = same_done[0]
    if c["boot"] != 0.0 or (c["trunc"] and not c["term"]):
        res.fail("C04", "bootstrap_trunc_only", "bootstrap_value_mismatch", **detail)
    else:
        res.fail("C04", "reward_of_clipped", "reward_mismatch", **detail)
    return c


def check_gae(res, rec, last_value_ref: float, gamma: float, lam: float, i: int):
    T = len(rec["rewards"])
    adv, ret = ref_gae(rec["rewards"], rec["values"], rec["dones"], last_value_ref, gamma, lam)
    scale = max(1.0, float(np.max(np.abs(adv))) if T else 1.0)
    tol = 2e-5 * max(T, 4) * scale
    got_adv = np.asarray(rec["advantages"], dtype=np.float64)
    got_ret = np.asarray(rec["returns"], dtype=np.float64)
    bad = np.where(~(np.abs(got_adv - adv) <= tol))[0]
    if len(bad):
        t = int(bad[-1])
        cause = "recursion_mismatch"
        # try to name the cause
        alt, _ = ref_gae(rec["rewards"], rec["values"], np.zeros(T, bool), last_value_ref, gamma, lam)
        if np.all(np.abs(got_adv - alt) <= tol):
            cause = "dones_ignored"
        else:
            alt2, _ = ref_gae(rec["rewards"], rec["values"], rec["dones"], float(rec["values"][-1]), gamma, lam)
            if np.all(np.abs(got_adv - alt2) <= tol) and not bool(rec["dones"][-1]):
                cause = "bootstrap_from_last_stored_value"
            else:
                alt3, _ = ref_gae(rec["rewards"], rec["values"], rec["dones"], 0.0, gamma, lam)
                if np.all(np.abs(got_adv - alt3) <= tol) and not bool(rec["dones"][-1]):
                    cause = "bootstrap_missing"
        chk = "gae_recursion"
        if cause.startswith("bootstrap"):
            chk = "bootstrap_is_post_rollout_value"
        elif cause == "dones_ignored":
            chk = "cut_at_done"
        res.fail("C03", chk, cause, node=i, t=t, got=got_adv.tolist(), expected=adv.tolist(),
                 rewards=np.asarray(rec["rewards"], dtype=float).tolist(), values=np.asarray(rec["values"], dtype=float).tolist(),
                 dones=np.asarray(rec["dones"], dtype=bool).tolist(), last_value=last_value_ref, gamma=gamma, lam=lam)
    else:
        res.ok("C03", "gae_recursion", T)
        if lam == 1.0:
            res.ok("C03", "lambda1_mc")
        if lam == 0.0:
            res.ok("C03", "lambda0_td")
        if np.any(rec["dones"]):
            res.ok("C03", "cut_at_done")
        if not bool(rec["dones"][-1]):
            res.ok("C03", "bootstrap_is_post_rollout_value")
    if not np.all(np.abs(got_ret - (got_adv + np.asarray(rec["values"], dtype=np.float64))) <= tol):
        res.fail("C03", "returns_eq_adv_plus_value", "returns_mismatch", node=i)
    else:
        res.ok("C03", "returns_eq_adv_plus_value")


def check_logger(res, rec, node: NodeRef, i: int, T: int):
    terms = max(4, node.log_step)
    ok = True
    if int(rec["log_step"]) != node.log_step:
        res.fail("C19", "length_count", "step_counter", node=i, got=int(rec["log_step"]), expected=node.log_step)
        ok = False
    if int(rec["log_ep_len"]) != node.ep_len:
        res.fail("C19", "length_count", "episode_length", node=i, got=int(rec["log_ep_len"]), expected=node.ep_len)
        ok = False
    if bool(rec["log_ep_done"]) != node.ep_done:
        res.fail("C19", "unchanged_otherwise", "episode_done_flag", node=i)
        ok = False
    if not close(rec["log_avg_len"], node.avg_len, rel=1e-5, terms=terms):
        res.fail("C19", "ema_at_episode_end", "average_length", node=i, got=float(rec["log_avg_len"]), expected=node.avg_len)
        ok = False
    if node.ret_overflow:
        res.probes["logger_return_check_skipped_too_many_hidden_successors"] += 1
    match = node.ret_overflow or any(
        close(rec["log_ep_ret"], er, rel=1e-5, terms=terms) and close(rec["log_avg_ret"], ar, rel=1e-5, terms=terms)
        for (er, ar) in node.ret_states
    )
    if not match:
        bad_avg = not any(close(rec["log_avg_ret"], ar, rel=1e-5, terms=terms) for (_, ar) in node.ret_states)
        alt = close(rec["log_ep_ret"], node.alt_ep_ret, rel=1e-5, terms=terms) and close(rec["log_avg_ret"], node.alt_avg_ret, rel=1e-5, terms=terms)
        cause = "timeout_bootstrap_counted_as_reward" if alt else ("average_return" if bad_avg else "episode_return_in_progress")
        res.fail("C19", "sum_of_true_rewards", cause, node=i, got_ep=float(rec["log_ep_ret"]), got_avg=float(rec["log_avg_ret"]),
                 consistent_pairs=sorted(node.ret_states)[:8])
        ok = False
    if ok:
        res.ok("C19", "ema_at_episode_end")
        res.ok("C19", "sum_of_true_rewards")
        res.ok("C19", "length_count")
        res.ok("C19", "per_node")
