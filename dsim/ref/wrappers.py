"""RefWrappers — the documented wrappers as plain functions and a counter (NumPy only).

A stack is a list of specs from the INNERMOST wrapper to the OUTERMOST one, e.g.
[["TimeLimit"], ["RescaleAction", -2.0, 2.0], ["TransformReward"]].
"""

from __future__ import annotations

import numpy as np

# functions used by Transform* wrappers (mirrored in dsim.scenarios.protocol)
T_OBS_SCALE, T_OBS_SHIFT = 0.5, 1.0  # o -> 0.5*o + 1
T_REW_SCALE, T_REW_SHIFT = 2.0, 1.0  # r -> 2*r + 1


class RefStack:
    def __init__(self, stack: list, kind: str, comps, obs_kind: str, D: int, box_low=-1.0, box_high=1.0, obs_bound=32.0):
        self.stack = [list(s) for s in stack]
        self.kind = kind
        self.comps = tuple(comps)
        self.obs_kind = obs_kind
        self.D = D
        self.inner_low, self.inner_high = float(box_low), float(box_high)
        self.obs_bound = float(obs_bound)

    # ------------------------------------------------------------------ actions: outer -> inner

    def action_bounds_below(self, level: int):
        """Box bounds of the action space seen by wrapper ``level`` from below (its inner env)."""
        lo, hi = self.inner_low, self.inner_high
        for spec in self.stack[:level]:
            if spec[0] == "ClipAction":
                lo, hi = -np.inf, np.inf
            elif spec[0] == "RescaleAction":
                lo, hi = float(spec[1]), float(spec[2])
            elif spec[0] == "HalfBoxHigh":
                hi = np.inf
            elif spec[0] == "HalfBoxLow":
                lo = -np.inf
        return lo, hi

    def outer_action_bounds(self):
        return self.action_bounds_below(len(self.stack))

    def map_action(self, action):
        """The action the innermost environment receives (float64 for Box kinds)."""
        a = np.asarray(action, dtype=np.float64) if self.kind in ("box", "boxscalar") else np.asarray(action)
        for level in range(len(self.stack) - 1, -1, -1):
            spec = self.stack[level]
            lo, hi = self.action_bounds_below(level)
            if spec[0] == "ClipAction":
                a = np.clip(a, lo, hi)
            elif spec[0] == "RescaleAction":
                m, M = float(spec[1]), float(spec[2])
                # new bounds [m, M] map affinely onto the bounds below [lo, hi]
                a = lo + (a - m) * (hi - lo) / (M - m)
            elif spec[0] == "HalfBoxHigh":
                a = np.minimum(a, 1.0)
            elif spec[0] == "HalfBoxLow":
                a = np.maximum(a, -1.0)
            elif spec[0] == "TransformAction":
                if self.kind in ("box", "boxscalar"):
                    a = -a
                elif self.kind == "discrete":
                    a = (a + 1) % self.comps[0]
        return a

    def map_mask(self, mask):
        """The mask the outermost wrapper offers, given the innermost one."""
        if mask is None:
            return None
        m = np.asarray(mask, dtype=bool)
        for spec in self.stack:
            if spec[0] == "TransformAction" and self.kind == "discrete":
                m = np.roll(m, -1)
        return m

    # ------------------------------------------------------------------ observations: inner -> outer

    def map_obs(self, row: np.ndarray):
        """Outer observation for the inner observation row (as a flat float64 vector when the
        outer observation is an array; pytrees are returned as lists of parts)."""
        kind = self.obs_kind
        if kind == "box":
            val = np.asarray(row, dtype=np.float64)
        elif kind in ("dict", "tuple"):
            val = [np.asarray(row[:1], dtype=np.float64), np.asarray(row[1:], dtype=np.float64)]
        else:
            val = None  # discrete observation: the state id itself
        lo = np.full(self.D, -self.obs_bound)
        hi = np.full(self.D, self.obs_bound)
        for spec in self.stack:
            if spec[0] == "FlattenObservation":
                if isinstance(val, list):
                    val = np.concatenate(val)
                elif val is None:
                    val = np.array([float(row[0])])
                    lo, hi = np.array([-np.inf]), np.array([np.inf])
                    continue
                lo, hi = np.full(val.shape, -np.inf), np.full(val.shape, np.inf)
            elif spec[0] == "ClipObservation":
                val = np.clip(val, lo, hi)
            elif spec[0] == "RescaleObservation":
                m, M = float(spec[1]), float(spec[2])
                val = m + (val - lo) * (M - m) / (hi - lo)
                lo, hi = np.full(val.shape, m), np.full(val.shape, M)
            elif spec[0] == "TransformObservation":
                val = T_OBS_SCALE * val + T_OBS_SHIFT
                lo, hi = T_OBS_SCALE * lo + T_OBS_SHIFT, T_OBS_SCALE * hi + T_OBS_SHIFT
        return val

    # ------------------------------------------------------------------ reward: inner -> outer

    def map_reward(self, r: float) -> float:
        for spec in self.stack:
            if spec[0] == "TransformReward":
                r = T_REW_SCALE * r + T_REW_SHIFT
            elif spec[0] == "ClipReward":
                r = min(max(r, float(spec[1])), float(spec[2]))
        return r

    # ------------------------------------------------------------------ time limits

    def time_limit_levels(self) -> list[int]:
        return [i for i, s in enumerate(self.stack) if s[0] == "TimeLimit"]
