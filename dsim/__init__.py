"""dsim — deterministic simulation with fault injection for lerax (see /verif/DESIGN.md)."""
