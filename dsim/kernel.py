"""Simulator kernel: seeds, canonical JSON, traces, verdicts, run results, known findings.

Nothing in this module imports JAX; it is shared by the JAX-free parent process and the
workers.  Every random choice of a run comes from ``random.Random(seed_i)`` where
``seed_i = derive(base, i)``; logging never draws from a PRNG and never reads a clock.
"""

from __future__ import annotations

import hashlib
import json
import math
import os
import random
import sys
import traceback
from collections import Counter
from dataclasses import dataclass, field
from typing import Any, Iterable

VERIF_ROOT = os.path.dirname(os.path.dirname(os.path.abspath(__file__)))
REPO_SRC = "/repo/src"
FORMAT = 1


# --------------------------------------------------------------------------- seeds


def derive(seed: int, *labels: Any) -> int:
    """Derive a 63-bit child seed from a parent seed and labels (stable across runs)."""
    h = hashlib.sha256()
    h.update(str(int(seed)).encode())
    for lab in labels:
        h.update(b"/")
        h.update(str(lab).encode())
    return int.from_bytes(h.digest()[:8], "big") >> 1


def rng_for(seed: int, *labels: Any) -> random.Random:
    return random.Random(derive(seed, *labels))


def env_seed() -> int:
    try:
        return int(os.environ.get("VERIF_SEED", "0"))
    except ValueError:
        return 0


# --------------------------------------------------------------------------- canonical JSON


def _plain(obj: Any) -> Any:
    """Convert numpy / jax scalars and arrays into plain Python for canonical JSON."""
    if obj is None or isinstance(obj, (bool, str)):
        return obj
    if isinstance(obj, int):
        return obj
    if isinstance(obj, float):
        if math.isnan(obj):
            return "nan"
        if math.isinf(obj):
            return "inf" if obj > 0 else "-inf"
        return obj
    if isinstance(obj, dict):
        return {str(k): _plain(v) for k, v in obj.items()}
    if isinstance(obj, (list, tuple)):
        return [_plain(v) for v in obj]
    if isinstance(obj, (set, frozenset)):
        return sorted(_plain(v) for v in obj)
    # numpy / jax
    tolist = getattr(obj, "tolist", None)
    if tolist is not None:
        try:
            import numpy as np

            return _plain(np.asarray(obj).tolist())
        except Exception:
            pass
    item = getattr(obj, "item", None)
    if item is not None:
        return _plain(item())
    return repr(obj)


def canon(obj: Any) -> str:
    return json.dumps(_plain(obj), sort_keys=True, separators=(",", ":"), allow_nan=False)


def digest(obj: Any) -> str:
    return "sha256:" + hashlib.sha256(canon(obj).encode()).hexdigest()


# --------------------------------------------------------------------------- trace


class Trace:
    """Recorded history of one simulated run; events stamped with a global sequence number."""

    def __init__(self) -> None:
        self.events: list[dict] = []

    def ev(self, kind: str, **payload: Any) -> int:
        seq = len(self.events)
        e = {"seq": seq, "ev": kind}
        e.update(payload)
        self.events.append(e)
        return seq

    def digest(self) -> str:
        return digest(self.events)

    def truncated(self, n: int = 40) -> list[dict]:
        ev = self.events
        if len(ev) <= n:
            return _plain(ev)
        return _plain(ev[: n // 2] + [{"ev": "...", "omitted": len(ev) - n}] + ev[-n // 2 :])


# --------------------------------------------------------------------------- verdicts


@dataclass
class Verdict:
    """A failed check.  ``signature`` = (property, check, cause) identifies the defect."""

    prop: str
    check: str
    cause: str
    detail: dict = field(default_factory=dict)

    @property
    def signature(self) -> tuple[str, str, str]:
        return (self.prop, self.check, self.cause)

    def to_json(self) -> dict:
        return {
            "property": self.prop,
            "check": self.check,
            "cause": self.cause,
            "detail": _plain(self.detail),
        }


@dataclass
class RunResult:
    trace: Trace
    verdicts: list[Verdict] = field(default_factory=list)
    events: Counter = field(default_factory=Counter)  # scheduled events that fired
    faults: Counter = field(default_factory=Counter)  # injected faults that fired
    probes: Counter = field(default_factory=Counter)  # "rare condition hit" probes
    checks: Counter = field(default_factory=Counter)  # oracle evaluations per check id
    steps: int = 0  # simulated environment steps / operations
    sim_seconds: float = 0.0
    variant: str = ""  # scenario-specific label of the history shape (part of the distinctness measure)

    def fail(self, prop: str, check: str, cause: str, **detail: Any) -> None:
        self.verdicts.append(Verdict(prop, check, cause, detail))

    def ok(self, prop: str, check: str, n: int = 1) -> None:
        self.checks[f"{prop}.{check}"] += n

    def event_signature(self) -> str:
        """Which event / fault kinds fired, with counts bucketed (0,1,2,3+,8+)."""

        def bucket(c: int) -> str:
            return str(c) if c < 3 else ("3+" if c < 8 else "8+")

        items = sorted((k, bucket(v)) for k, v in list(self.events.items()) + list(self.faults.items()) if v)
        return hashlib.sha256((canon(items) + "|" + self.variant).encode()).hexdigest()[:16]


class Crash(Exception):
    """Raised by scenarios to report an exception coming out of lerax on a legal plan."""


def _lerax_src() -> str:
    """Directory that contains the imported `lerax` package (normally /repo/src; a snapshot when PYTHONPATH says so)."""
    mod = sys.modules.get("lerax")
    f = getattr(mod, "__file__", None)
    return os.path.dirname(os.path.dirname(os.path.abspath(f))) if f else REPO_SRC


def lerax_frame(exc: BaseException) -> str | None:
    """Innermost traceback frame located in the lerax sources, as 'file:line:function'."""
    tb = traceback.extract_tb(exc.__traceback__)
    inner = None
    src = _lerax_src()
    for fr in tb:
        if fr.filename.startswith(src):
            inner = f"{os.path.relpath(fr.filename, src)}:{fr.name}"
    # chained exceptions (jax re-raises with __cause__)
    cause = exc.__cause__ or exc.__context__
    if inner is None and cause is not None and cause is not exc:
        return lerax_frame(cause)
    return inner


def exc_summary(exc: BaseException) -> str:
    msg = str(exc).strip().splitlines()
    return f"{type(exc).__name__}: {msg[0][:200] if msg else ''}"


# --------------------------------------------------------------------------- known findings

KNOWN_FINDINGS_PATH = os.path.join(VERIF_ROOT, "known_findings.json")


def load_known_findings() -> list[dict]:
    try:
        with open(KNOWN_FINDINGS_PATH) as f:
            data = json.load(f)
    except FileNotFoundError:
        return []
    return list(data.get("entries", []))


def known_match(sig: Iterable[str], entries: list[dict]) -> dict | None:
    sig = list(sig)
    for e in entries:
        if e.get("status") == "known" and list(e.get("signature", [])) == sig:
            return e
    return None


# --------------------------------------------------------------------------- replay files


def replay_path(prop: str, sig: Iterable[str], seed: int) -> str:
    tag = hashlib.sha256(canon(list(sig)).encode()).hexdigest()[:8]
    d = os.path.join(VERIF_ROOT, "replays")
    os.makedirs(d, exist_ok=True)
    return os.path.join(d, f"{prop}-{tag}-{seed}.json")


def write_replay(path: str, doc: dict) -> None:
    tmp = path + ".tmp"
    with open(tmp, "w") as f:
        json.dump(_plain(doc), f, sort_keys=True, indent=1)
    os.replace(tmp, path)
