#!/bin/bash
# Confirm a seeded change produced by a sub-agent in a FRESH scratch worktree of /repo and run our checks against it.
#   checks/verify_seeded.sh <tag e.g. C04_a> "<pytest files>" <check ids...>
# uses /tmp/mutants/<tag>/patch.diff and demo.py (demo may refer to the agent's worktree path: it is rewritten to the fresh one)
set -u
tag="$1"; tests="$2"; shift 2
d=/tmp/mutants/$tag
out=$d/verify.txt
wt=/tmp/vwt_$tag
: > $out
git -C /repo worktree add -q --detach $wt HEAD || exit 2
trap 'git -C /repo worktree remove --force '$wt' 2>/dev/null' EXIT
orig=$(grep -o '/tmp/wt_[A-Za-z0-9_]*' $d/demo.py | head -1)
sed "s#${orig:-/tmp/wt_NONE}#$wt#g" $d/demo.py > $wt/.demo.py
( cd $wt && PYTHONPATH=$wt/src timeout 1200 /venv/bin/python .demo.py > $d/demo_without.log 2>&1 ); echo "demo_without_change exit=$?" | tee -a $out
git -C $wt apply $d/patch.diff || { echo "patch does not apply" | tee -a $out; exit 2; }
( cd $wt && PYTHONPATH=$wt/src timeout 1200 /venv/bin/python .demo.py > $d/demo_with.log 2>&1 ); echo "demo_with_change exit=$?" | tee -a $out
if [ -n "$tests" ]; then
  ( cd $wt && PYTHONPATH=$wt/src timeout 3000 /venv/bin/python -m pytest -q -p no:cacheprovider --timeout=900 $tests 2>&1 | grep -a "passed\|failed\|error" | tail -1 ) | sed 's/^/tests_with_change: /' | tee -a $out
fi
/verif/checks/try_patch.sh $d/patch.diff "$@" 2>&1 | tee -a $out | grep -a "^==\|VIOLATION" | cut -c1-260
