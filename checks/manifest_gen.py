"""Regenerate /verif/MANIFEST.json from the registered checks:  python3 -m checks.manifest_gen"""

from __future__ import annotations

import json
import os

ROOT = os.path.dirname(os.path.dirname(os.path.abspath(__file__)))

NA = [
    ("C08", "pure function of (policy, buffer, coefficients): no schedule, clock, fault, interleaving or history in the statement; a simulator could only generate inputs for it (property-based testing under another name)"),
    ("C14", "pure predicates/constructors over an input domain (membership, sampling, equality of spaces); nothing for a scheduler or fault injector to decide"),
    ("C15", "pure mathematics of parameterised probability laws (normalisation, Jacobians, sample/density agreement); no state, time, I/O or second party"),
    ("C17", "differential comparison of pure functions of (state, action) against Gymnasium over a continuous input domain; no history, schedule or fault dependence"),
]

TECH = "deterministic simulation: seeded search over plans (scheduled episode events + injected faults) with {oracle}; minimised replay files"

CHECKS = {
    "C01": dict(
        oracle="per-operation refinement of step/reset against RefMDP∘RefStack; counter-restart history oracle; 256-reset freshness count; Gymnasium/Gymnax adapters against call-logging peers and twins (boundary seeds, non-default Gymnax parameters, repeated auto-resets over a continuous initial distribution)",
        text="Seeded operation sequences on wrapper-stack programs over drawn finite MDPs; every returned (state, observation, reward, flags) is refined against a reference interpreter from the input state, incl. fresh state with restarted clocks/counters on done. Exploration.",
        note="Trusted: SimMDP tables; successor of a done step matched existentially; built-in environments are covered by the rollout scenario (C02) only for space membership.",
        ref="5 (C01)",
    ),
    "C11": dict(
        oracle="bit-identity of trained leaves across repeats, keys, fresh interpreters (PYTHONHASHSEED varied, whole library imported first, another configuration trained first in the parent), observer sets and host-fault schedules; constructor purity of all built-in environments (configuration digests)",
        text="The simulator's own determinism obligation turned on lerax: the real learn() of all five algorithms is repeated in-process and in fresh interpreters, with every observer set (incl. video through a simulated executor whose interleaving the seed decides, injected back-end failures, simulated clock) and compared bit for bit with the observer-free run; the input policy must be untouched and another key must change the result. Exploration over configurations and fault schedules.",
        note="Budgets <= 4 iterations, <= 3 envs; XLA's scheduling of host callbacks is outside the simulator's control.",
        ref="5 (C11)",
    ),
    "C12": dict(
        oracle="non-interference under node-perturbation faults (bit-identical other nodes), vmapped-vs-single collection equality, eager/vmap/jit mode equality incl. heterogeneous vmap batches and the stack as constructed vs passed through jit, no row of a batching view mixes environments",
        text="Fault injection on one parallel environment node of the real vectorised on-/off-policy iteration with bit-for-bit comparison of all other nodes; the vmapped collect_rollout call compared with N single-environment calls from the same keys and start states; the same step executed eagerly, vmapped and jitted. Exploration.",
        note="First sentence decided on states reached by simulated runs of SimMDP wrapper stacks (built-in environments: rollout scenario).",
        ref="5 (C12)",
    ),
    "C16": dict(
        oracle="safety invariant at the environment seam (poison state) plus shadow queries in key-less / keyed / epsilon-greedy modes along simulated episodes",
        text="Masks are offered by the simulated environment and change with its state; at every step the table policies and the real MLP actor-critic / Q policies are queried in all modes; no masked action may be returned or executed, key-less = mode of the reported masked law, keyed log-prob matches, epsilon bound as a count. Exploration.",
        note="Invariants over simulated interactions; the all-masks x all-parameters identity is not claimed. Hoeffding slack 1e-12 over 4096 keys; joint-frequency probe (2048 keys per context) for 'samples from the law it reports'; laws built from logits and from probabilities; MLP heads of non-default depth.",
        ref="5 (C16)",
    ),
    "C13": dict(
        oracle="twin refinement of wrapped vs inner environment through RefStack (declared change only), TimeLimit history oracle, construction/space/pass-through checks, adapter peer-history equality",
        text="All 11 documented wrappers in random stacks (depth 0..4) over drawn finite MDPs: functional components and step/reset compared with the inner environment under the declared change only; exact TimeLimit; every documented wrapper constructible. Exploration.",
        note="Rescale wrappers only over bounded boxes with dyadic bounds; one-sided declared action boxes under ClipAction; level-by-level check that a wrapper which declares no change advertises the space of what it wraps; adapters are checked by the peers scenario.",
        ref="5 (C13)",
    ),
    "C02": dict(
        oracle="invariants after every step of adversarially driven auto-reset rollouts of the built-in environments; replay digests for Python-state independence",
        text="Every built-in environment (classic control with both solvers, all MuJoCo environments, the three G1 tasks) and wrapper stacks over them are rolled out for hundreds of steps under a seeded adversary (random, corner holds, corner alternation, one-step look-ahead towards the bounds, balance-and-cruise controller for CartPole); membership of every observation in the declared space, dtypes, finiteness and flag types are checked at every step. Exploration.",
        note="Bounded horizon (30..900 steps per rollout, 8 rollouts per class in the quick tier); cold compile of MuJoCo/G1 dominates the quick run (~3 min). Also: constructor-option sweep of the MuJoCo environments (abstract evaluation), ActionSpy seam for the action that reaches the environment, constructor purity (no Python-side state shared between environment objects).",
        ref="5 (C02)",
    ),
    "C03": dict(
        oracle="RefGAE history oracle over rollouts recorded by the real on-policy pipeline, per node",
        text="Seeded simulation of the real PPO/A2C/REINFORCE reset+iteration on drawn finite MDPs with every done pattern scheduled (termination, time-out, both, first/last step, consecutive); the GAE definition of the statement is re-evaluated in float64 per node on what the pipeline recorded. Exploration: clean batches are evidence, not proof; the all-real-sequences identity is decided only on simulated histories.",
        note="Trusted: SimMDP tables, NumPy reference, float32/float64 tolerance 2e-5*T; bounds T<=16, nodes<=4.",
        ref="5 (C03)",
    ),
    "C04": dict(
        oracle="RefCollectorOn relation check of every stored row and of the carried step state",
        text="Every row of every rollout collected by the real on-policy iteration is checked against a reference interpreter of the same MDP/policy tables: observation acted on, mask, stored action vs log-prob, clipped drive and reward, done, bootstrap only on pure truncation, fresh environment/policy state after done, exact time limit. Seeded exploration with minimisation and exact replay.",
        note="Trusted: SimMDP tables and unique observation ids; table policy uses lerax's real distributions; `train` is replaced by a spy that exposes the buffer.",
        ref="5 (C04)",
    ),
    "C05": dict(
        oracle="RefCollectorOff chain check of the replay content after warm-up and after every iteration",
        text="The real DQN/SAC reset and iteration run on drawn finite MDPs; the whole per-node replay buffer is read after every operation and every newly inserted row is checked as a chain link. Seeded exploration.",
        note="Trusted: SimMDP tables; SAC critics replaced by table critics after reset; rows overwritten before the first read are skipped (counted).",
        ref="5 (C05)",
    ),
    "C06": dict(
        oracle="model-based stateful test of ReplayBuffer against RefRing (deque) with tagged rows, plus in-vivo re-check inside the DQN/SAC loops",
        text="Seeded add/sample histories (wrap-around many times, partial fill, 1..4 per-node buffers with different fill levels sampled jointly) with every field of a row encoding its insertion number; contents and samples are compared with a deque reference after every operation. Exploration.",
        note="Capacities 1..12, <= 66 operations per history; unwritten slots recognisable by construction.",
        ref="5 (C06)",
    ),
    "C09": dict(
        oracle="exactly-once delivery of tagged samples read back from the trained parameters after the real train(); API-level bijection/partition checks",
        text="Every collected sample carries a unique tag in every field; after the real PPO/A2C/REINFORCE update with SGD the number of visits of each sample is recovered from its own value-table entry, alignment from penalties and logged statistics. Exploration over (num_envs, num_steps, num_batches, num_epochs, keys).",
        note="Trusted: optax.sgd, the halving construction (lr = B/(2*vf)) and the step recorder (entropy head: counter parameter + per-sample bit tables) from which the composition of every gradient step is decoded; N <= 64, E <= 4.",
        ref="5 (C09)",
    ),
    "C07": dict(
        oracle="RefTD: targets recovered from Q-table deltas (DQN) and logged q_loss / critic deltas (SAC) under scheduled termination/time-out events",
        text="System-level reading: the running learner's reaction to the kind of episode end the simulator schedules is compared with the reference TD rule after every real iteration (tabular Q, SGD, full-buffer batches). Seeded exploration.",
        note="Trusted: optax.sgd, table critics, deterministic update law of the simulated SAC policy; Q-values and critic depend on the policy state, termination and successor are the simulator's ground truth, SAC runs continue from a non-initial temperature, DQN.train is also called directly. The formula is decided on batches produced by simulated histories, not on all batches.",
        ref="5 (C07)",
    ),
    "C10": dict(
        oracle="RefSchedule over iteration histories (counter, DQN hard-copy schedule, SAC Polyak and actor/alpha gating) plus learn() record counts and a spy callback that reports counter, online and target networks from inside learn()",
        text="Iteration-by-iteration drive of the real DQN/SAC with snapshots after every iteration; exact comparisons for copies, tolerance for Polyak. Seeded exploration over intervals, tau, policy_frequency, autotune.",
        note="Any single residue class is accepted for SAC's actor gating (the statement does not fix the phase).",
        ref="5 (C10)",
    ),
    "C18": dict(
        oracle="save/load operation sequences over a simulated disk with crash points (torn write, ENOSPC, failing open, pre-existing files) against a content model; a save that returns normally is taken at its word; behaviour compared under jit and eagerly",
        text="Seeded sequences of save/load under many path spellings for all three policy classes and all supported space kinds, with file-system faults between and inside operations; round trips must be bit-identical in leaves and behaviour, shape mismatches and torn/short/foreign files must raise. Exploration with fault injection.",
        note="Real temp directory as the disk; no bit flips (no checksums promised); EACCES not injectable as root.",
        ref="5 (C18)",
    ),
    "C19": dict(
        oracle="RefLogger on true rewards per node; ordered-delivery history oracle; RefEval",
        text="The real LoggingCallback step logic runs inside the real collection loops; statistics are compared with a reference fed with the true environment rewards derived from the recorded chain. Seeded exploration.",
        note="True rewards are those of the SimMDP tables; set-valued reference where a done step of a stochastic transition hides its successor.",
        ref="5 (C19)",
    ),
    "C20": dict(
        oracle="invariants at every reset event (explicit and automatic) and at every control step of G1 episodes; long phase-clock runs; foot-height grid",
        text="For the three Unitree G1 tasks, vmapped initial states under many keys and auto-reset rollouts under a short time limit are checked at every reset event (randomised fields within range, every other model leaf bit-identical to nominal, command/frequency ranges, kinematics vs mjx.forward) and at every control step (phase interval, half-cycle offset, advance per control step); the phase clock alone runs for up to 1e6 ticks. Exploration.",
        note="Quick tier uses default constructor ranges (compile cost ~2 min per task); thorough adds a constructor swarm.",
        ref="5 (C20)",
    ),
}


def main() -> None:
    checks = []
    for pid in sorted(CHECKS):
        c = CHECKS[pid]
        checks.append(
            {
                "property_id": pid,
                "quick_cmd": f"cd /verif && timeout 2400 /venv/bin/python -m checks.run {pid} --tier quick",
                "thorough_cmd": f"cd /verif && timeout 7200 /venv/bin/python -m checks.run {pid} --tier thorough",
                "evidence_file": f"/verif/evidence/{pid}.json",
                "replay_cmd_template": "cd /verif && /venv/bin/python -m dsim.replay {path}",
                "engine": "dsim",
                "level_claimed": {"category": "exploration", "text": c["text"], "design_ref": "DESIGN.md section " + c["ref"]},
                "level_note": c["note"],
                "technique": TECH.format(oracle=c["oracle"]),
            }
        )
    claimed = set(CHECKS)
    all_ids = [f"C{i:02d}" for i in range(1, 21)]
    na = [{"property_id": p, "reason": r} for p, r in NA]
    for p in all_ids:
        if p not in claimed and p not in dict(NA):
            na.append({"property_id": p, "reason": "check not built yet in this round (planned, see DESIGN.md section 5); not claimed until it is"})
    manifest = {
        "version": 1,
        "setup_cmd": "/venv/bin/python -c \"import jax, equinox, optax, numpy, lerax; assert '/repo/src' in lerax.__file__\" && mkdir -p /verif/.cache /verif/evidence /verif/replays",
        "hooks": {
            "guard": "LERAX_VERIF",
            "enable": "no source hooks: all seams are public lerax interfaces or module-level names patched from /verif at run time",
            "baseline_off_cmd": "cd /repo && /venv/bin/python -m pytest -ra -q -p no:cacheprovider --timeout=900 --continue-on-collection-errors",
            "source_commits": [],
            "add_only": True,
        },
        "engines": [
            {
                "name": "dsim",
                "path": "/verif/dsim",
                "serves_properties": sorted(claimed),
                "kind_free_text": "hand-written deterministic simulator: seeded plans -> execution of the real lerax loops against simulated environments/policies/peers/back-ends -> trace -> reference-model oracles -> ddmin -> replay",
            }
        ],
        "checks": checks,
        "not_applicable": sorted(na, key=lambda x: x["property_id"]),
        "notes": "Deterministic simulation with fault injection; see DESIGN.md. Known findings: /verif/known_findings.json.",
    }
    with open(os.path.join(ROOT, "MANIFEST.json"), "w") as f:
        json.dump(manifest, f, indent=1)
    print("wrote MANIFEST.json with", len(checks), "checks;", len(na), "not applicable / not claimed")


if __name__ == "__main__":
    main()
