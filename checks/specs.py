"""Per-property check specifications (plain data; no JAX import)."""

STUB_MDP = [
    "SimMDP finite-MDP environments (tables drawn per run)",
    "table policies (SimTablePolicy / SimQTable / SimSACPolicy)",
    "SpyCallback (pure-JAX observer) and RecordingBackend",
    "`train` of the on-policy learner replaced by a spy handing the buffer to the observer",
]
REAL_ON = [
    "lerax on_policy.reset/iteration/collect_rollout/step/post_collect (PPO, A2C, REINFORCE)",
    "lerax RolloutBuffer incl. compute_returns_and_advantages",
    "lerax wrappers TimeLimit/Identity, filter_cond/filter_scan, distributions, LoggingCallbackStepState",
    "JAX/XLA CPU, Equinox",
]

SPECS = {
    "C04": {
        "scenarios": [{"name": "collect_on", "runs": {"quick": 300, "thorough": 1000000}, "chunks": {"quick": 2, "thorough": 2}}],
        "budget_s": {"quick": 600, "thorough": 1200},
        "rule": "one evaluation = one seeded simulated run (plan drawn from seed: MDP tables, policy tables, gamma/lambda/time-limit, "
        "reset + 1..4 real `iteration`s, optional node-perturbation fault) executed through the real on-policy pipeline and checked "
        "row by row by RefCollectorOn; non-trivial = at least one scheduled event (episode end of any kind, clipped/out-of-bounds action, "
        "single-action mask) or injected fault fired; distinct = distinct (shape class, set of fired event/fault kinds with bucketed counts)",
        "assumptions": [
            "SimMDP tables and unique observation encodings are trusted; float32 results compared with float64 references at 2e-5 relative",
            "seeded search samples: a clean batch is evidence, not proof (bounds S<=8, T<=16, nodes<=4, <=4 iterations)",
        ],
        "real": REAL_ON,
        "stub": STUB_MDP,
    },
}
