"""Per-property check specifications (plain data; no JAX import)."""

STUB_MDP = [
    "SimMDP finite-MDP environments (tables drawn per run)",
    "table policies (SimTablePolicy / SimQTable / SimSACPolicy)",
    "SpyCallback (pure-JAX observer) and RecordingBackend",
    "`train` of the on-policy learner replaced by a spy handing the buffer to the observer",
]
REAL_ON = [
    "lerax on_policy.reset/iteration/collect_rollout/step/post_collect (PPO, A2C, REINFORCE)",
    "lerax RolloutBuffer incl. compute_returns_and_advantages",
    "lerax wrappers TimeLimit/Identity, filter_cond/filter_scan, distributions, LoggingCallbackStepState",
    "JAX/XLA CPU, Equinox",
]

SPECS = {
    "C04": {
        "scenarios": [{"name": "collect_on", "runs": {"quick": 300, "thorough": 1000000}, "chunks": {"quick": 2, "thorough": 2}}],
        "budget_s": {"quick": 600, "thorough": 1200},
        "rule": "one evaluation = one seeded simulated run (plan drawn from seed: MDP tables, policy tables, gamma/lambda/time-limit, "
        "reset + 1..4 real `iteration`s, optional node-perturbation fault) executed through the real on-policy pipeline and checked "
        "row by row by RefCollectorOn; non-trivial = at least one scheduled event (episode end of any kind, clipped/out-of-bounds action, "
        "single-action mask) or injected fault fired; distinct = distinct (shape class, set of fired event/fault kinds with bucketed counts); stacks with RescaleAction and one-sided Box action spaces; critic undefined (infinite) on terminal states nobody acts on",
        "assumptions": [
            "SimMDP tables and unique observation encodings are trusted; float32 results compared with float64 references at 2e-5 relative",
            "seeded search samples: a clean batch is evidence, not proof (bounds S<=8, T<=16, nodes<=4, <=4 iterations)",
        ],
        "real": REAL_ON,
        "stub": STUB_MDP,
    },
    "C03": {
        "scenarios": [{"name": "collect_on", "runs": {"quick": 300, "thorough": 1000000}, "chunks": {"quick": 2, "thorough": 2}}],
        "budget_s": {"quick": 600, "thorough": 1200},
        "rule": "one evaluation = one seeded simulated run of reset + 1..4 real on-policy iterations; RefGAE (the definition in the statement, "
        "float64) is evaluated per node over the rewards/values/dones the pipeline recorded, with the bootstrap value read from the table "
        "at the carried post-rollout state; non-trivial = a done pattern (any episode-end event) fired in the run; distinct = distinct "
        "(shape class, set of fired event kinds with bucketed counts)",
        "assumptions": [
            "formula-level content is decided only on histories the simulated system produces (T<=16, nodes<=4, gamma/lambda from a fixed grid incl. 0 and 1)",
            "float32 vs float64 tolerance 2e-5*T*scale",
        ],
        "real": REAL_ON,
        "stub": STUB_MDP,
    },
    "C19": {
        "scenarios": [{"name": "collect_on", "runs": {"quick": 300, "thorough": 1000000}, "chunks": {"quick": 2, "thorough": 2}},
                      {"name": "offpolicy", "runs": {"quick": 100, "thorough": 1000000}, "chunks": {"quick": 1, "thorough": 1}},
                      {"name": "train", "runs": {"quick": 16, "thorough": 1000000}, "chunks": {"quick": 1, "thorough": 1}},
                      {"name": "evalhelper", "runs": {"quick": 100, "thorough": 1000000}, "chunks": {"quick": 1, "thorough": 1}}],
        "budget_s": {"quick": 600, "thorough": 1200},
        "rule": "one evaluation = one seeded simulated run; the real LoggingCallback step logic runs inside the real collection loop; after every "
        "iteration each node's logger state is compared with RefLogger fed with the TRUE environment rewards and flags derived by RefMDP from the "
        "recorded chain; non-trivial = an episode end fired; distinct = distinct (shape class, fired event kinds)",
        "assumptions": ["true rewards are those of the SimMDP tables for the recorded (state, clipped action, successor)"],
        "real": REAL_ON,
        "stub": STUB_MDP,
    },
    "C05": {
        "scenarios": [{"name": "offpolicy", "runs": {"quick": 240, "thorough": 1000000}, "chunks": {"quick": 2, "thorough": 2}}],
        "budget_s": {"quick": 600, "thorough": 1200},
        "rule": "one evaluation = one seeded simulated run: real DQN/SAC reset (warm-up) + 1..6 real iterations on a drawn SimMDP with a "
        "drawn behaviour policy; after reset and after every iteration the whole per-node replay content is read and every newly inserted "
        "row is checked by RefCollectorOff as a chain (observation acted on, executed = clipped action, reward, pre-reset successor "
        "observation, done, timeout, policy states, fresh start after done, exact counts); non-trivial = an episode end, ring wrap, partial "
        "fill or out-of-bounds action fired; distinct = distinct (shape class, fired event/fault kinds with bucketed counts); a learner that implements only the documented hooks and inherits the base-class reset/iteration; one-sided Box action spaces",
        "assumptions": ["SimMDP tables / unique observation ids trusted", "rows overwritten before the first read are skipped and counted (probe rows_overwritten_unseen)"],
        "real": ["lerax off_policy.reset/collect_learning_starts/iteration/step, ReplayBuffer.add, DQN/SAC training step (runs, not judged here)", "TimeLimit, JAX/XLA CPU"],
        "stub": STUB_MDP[:3] + ["SAC critics replaced by table critics after reset (documented SACState fields)"],
    },
    "C07": {
        "scenarios": [{"name": "offpolicy", "runs": {"quick": 300, "thorough": 1000000}, "chunks": {"quick": 3, "thorough": 3}}],
        "budget_s": {"quick": 600, "thorough": 1200},
        "rule": "one evaluation = one seeded simulated run of the real DQN/SAC learner with tabular Q / critics, SGD substituted through the public "
        "optimizer fields and batch = whole buffer; after every real iteration the online tables (DQN) / critic tables and logged q_loss (SAC) are "
        "compared with RefTD applied to the buffer rows (flags scheduled by the simulator: termination, time-out, both, none); non-trivial = the "
        "training batch contained a terminated or a timed-out row; distinct = distinct (shape class, fired event kinds)",
        "assumptions": ["system-level reading: targets are observed through their effect on the learner, on batches the simulated system produces",
                        "optax.sgd trusted; arg-max ties (gap < 1e-3) are skipped and counted"],
        "real": ["lerax DQN.iteration/dqn_train/dqn_loss/per_iteration, SAC.iteration/sac_train/q_loss/actor and alpha updates/_soft_update_targets, ReplayBuffer.sample"],
        "stub": STUB_MDP[:3] + ["SAC critics = TableCritic (q[s] + w*sum(a)), SAC policy with deterministic update law (known next action and log-prob)"],
    },
    "C10": {
        "scenarios": [{"name": "offpolicy", "runs": {"quick": 240, "thorough": 1000000}, "chunks": {"quick": 2, "thorough": 2}},
                      {"name": "collect_on", "runs": {"quick": 60, "thorough": 1000000}, "chunks": {"quick": 1, "thorough": 1}},
                      {"name": "train", "runs": {"quick": 16, "thorough": 1000000}, "chunks": {"quick": 1, "thorough": 1}},
                      {"name": "peers", "runs": {"quick": 40, "thorough": 1000000}, "chunks": {"quick": 1, "thorough": 1}}],
        "budget_s": {"quick": 600, "thorough": 1200},
        "rule": "one evaluation = one seeded iteration history (reset + 1..6 real iterations, driven from Python exactly as learn scans them); "
        "RefSchedule checks the iteration counter, DQN hard copies on multiples of the interval and frozen targets in between (exact), SAC "
        "Polyak once per iteration, actor/alpha gating on one residue class of policy_frequency; non-trivial = a target tick or actor tick "
        "fired; distinct = distinct (shape class, fired event kinds).  (train) additionally a spy callback reports, from INSIDE the real learn(), iteration "
        "count, online and target networks at every iteration and at the end: one Polyak step per iteration (SAC) / target = online network of the last sync (DQN), "
        "under either reading of where in the iteration the callback fires",
        "assumptions": ["the phase of SAC's policy_frequency gating is not fixed by the statement: any single residue is accepted"],
        "real": ["lerax AbstractAlgorithmState.next, DQN.per_iteration, SAC.sac_train gating, _soft_update_targets"],
        "stub": STUB_MDP[:3],
    },
    "C01": {
        "scenarios": [{"name": "protocol", "runs": {"quick": 120, "thorough": 1000000}, "chunks": {"quick": 1, "thorough": 1}},
                      {"name": "peers", "runs": {"quick": 60, "thorough": 1000000}, "chunks": {"quick": 1, "thorough": 1}},
                      {"name": "rollout", "runs": {"quick": 6, "thorough": 1000000}, "chunks": {"quick": 1, "thorough": 1}}],
        "budget_s": {"quick": 600, "thorough": 1200},
        "rule": "one evaluation = one seeded operation sequence (reset / step / functional calls / 256-reset batch, 5..60 ops) on a wrapper-stack "
        "program over a drawn SimMDP; every step and reset is refined against RefMDP∘RefStack from the INPUT state (reward, flags, fresh state on "
        "done with clocks and counters restarted, observation of the returned state); non-trivial = an episode-ending event fired; distinct = "
        "distinct (stack program, fired event kinds with bucketed counts)",
        "assumptions": ["SimMDP tables trusted; the successor of a done step is hidden by the auto-reset, so flags/reward are matched existentially over the legal successors"],
        "real": ["lerax AbstractEnvLike.step/reset, all 11 documented wrappers, rescale_box, spaces' contains"],
        "stub": ["SimMDP finite-MDP environments (tables drawn per run)"],
    },
    "C13": {
        "scenarios": [{"name": "protocol", "runs": {"quick": 120, "thorough": 1000000}, "chunks": {"quick": 1, "thorough": 1}},
                      {"name": "peers", "runs": {"quick": 60, "thorough": 1000000}, "chunks": {"quick": 1, "thorough": 1}}],
        "budget_s": {"quick": 600, "thorough": 1200},
        "rule": "one evaluation = one seeded operation sequence on a wrapper-stack program (all 11 documented wrappers, depth 0..4) over a drawn "
        "SimMDP, incl. direct calls of every functional component, bound corners fed explicitly, construction of every documented wrapper, "
        "advertised spaces, name/unwrapped pass-through and exact TimeLimit counters; non-trivial = an event fired (episode end, bound corner); "
        "distinct = distinct (stack program, fired event kinds)",
        "assumptions": ["RescaleAction/RescaleObservation only over bounded boxes with dyadic bounds (corners exactly representable)",
                        "adapters (Gymnasium/Gymnax) are covered by the `peers` scenario"],
        "real": ["all 11 documented lerax wrappers, AbstractEnvLike.step/reset"],
        "stub": ["SimMDP finite-MDP environments"],
    },
    "C12": {
        "scenarios": [
            {"name": "collect_on", "runs": {"quick": 160, "thorough": 1000000}, "chunks": {"quick": 1, "thorough": 1}},
            {"name": "offpolicy", "runs": {"quick": 120, "thorough": 1000000}, "chunks": {"quick": 1, "thorough": 1}},
            {"name": "protocol", "runs": {"quick": 60, "thorough": 1000000}, "chunks": {"quick": 1, "thorough": 1}},
            {"name": "rollout", "runs": {"quick": 6, "thorough": 1000000}, "chunks": {"quick": 1, "thorough": 1}},
            {"name": "ring", "runs": {"quick": 120, "thorough": 1000000}, "chunks": {"quick": 1, "thorough": 1}},
        ],
        "budget_s": {"quick": 600, "thorough": 1200},
        "rule": "one evaluation = one seeded run with an injected fault or mode knob: (a) F.node_perturb: one parallel node's start state / policy "
        "state is changed and the real vectorised iteration re-run — every other node's buffer slice and carried state must be bit-identical; "
        "(b) the vmapped collect_rollout call vs N single-environment calls from the same keys and start states; (c) F.exec_mode: the same "
        "step executed eagerly / vmapped vs jitted; non-trivial = a fault/mode knob actually fired; distinct = distinct (shape class, fired kinds)",
        "assumptions": ["first sentence decided on states reached by simulated runs of SimMDP stacks; built-in environments' mode equality is part of the rollout scenario"],
        "real": REAL_ON + ["lerax off_policy vectorised reset/iteration", "env.step under jax.disable_jit and filter_vmap"],
        "stub": STUB_MDP,
    },
    "C16": {
        "scenarios": [
            {"name": "mask_query", "runs": {"quick": 60, "thorough": 1000000}, "chunks": {"quick": 1, "thorough": 1}},
            {"name": "collect_on", "runs": {"quick": 160, "thorough": 1000000}, "chunks": {"quick": 1, "thorough": 1}},
        ],
        "budget_s": {"quick": 600, "thorough": 1200},
        "rule": "one evaluation = one seeded simulated run: (mask_query) episodes on a masked SimMDP whose mask changes with the state, with shadow "
        "queries at every step in key-less / keyed (K keys) / epsilon-greedy modes of table policies and of the real MLPActorCriticPolicy / MLPQPolicy; "
        "(collect_on) the real on-policy collection with masks, the environment poisoning any masked action; non-trivial = a single-action mask, a mask "
        "change or a state where a non-greedy action was possible occurred; distinct = distinct (shape class, fired event kinds).  Frequency-probe classes "
        "(2048 keys per context): how often the most probable JOINT action comes back vs the probability the policy reports for it, pooled over the run "
        "(Azuma-Hoeffding, false-alarm probability <= 1e-12)",
        "assumptions": ["invariants over simulated interactions, not the all-parameters identity", "epsilon bound decided as a count over K=4096 keys with Hoeffding slack at 1e-12",
                        "off-policy collection passes no mask to the policy (not part of the statement), so Q policies are judged through shadow queries only"],
        "real": ["lerax Categorical/MultiCategorical/Bernoulli.mask, ActionLayer, MLPActorCriticPolicy, AbstractQPolicy.__call__, MLPQPolicy", "on-policy collection loop"],
        "stub": STUB_MDP[:2],
    },
    "C06": {
        "scenarios": [
            {"name": "ring", "runs": {"quick": 150, "thorough": 1000000}, "chunks": {"quick": 2, "thorough": 2}},
            {"name": "offpolicy", "runs": {"quick": 100, "thorough": 1000000}, "chunks": {"quick": 1, "thorough": 1}},
        ],
        "budget_s": {"quick": 600, "thorough": 1200},
        "rule": "one evaluation = one seeded operation history: (ring) add / sample sequences with tagged rows on ReplayBuffers of capacity 1..12, "
        "1..4 per-node buffers with different fill levels sampled jointly, checked after every operation against RefRing (deque(maxlen=C)); "
        "(offpolicy) the buffers of the real DQN/SAC loops re-checked against the verified chain; non-trivial = a wrap, multi-wrap, partial fill "
        "or differing fill levels occurred; distinct = distinct (shape class, fired event kinds)",
        "assumptions": ["unwritten slots are recognisable because tags start at 1 and canonical fills decode to 0"],
        "real": ["lerax ReplayBuffer.__init__/add/sample/current_size, AbstractBuffer.flatten_axes", "in vivo: off_policy collection"],
        "stub": ["tagged rows generated by the simulator", "SimMDP / table policies in the in-vivo part"],
    },
    "C09": {
        "scenarios": [
            {"name": "update", "runs": {"quick": 60, "thorough": 1000000}, "chunks": {"quick": 2, "thorough": 2}},
            {"name": "ring", "runs": {"quick": 100, "thorough": 1000000}, "chunks": {"quick": 1, "thorough": 1}},
        ],
        "budget_s": {"quick": 600, "thorough": 1200},
        "rule": "one evaluation = one seeded run: (update) a fully tagged rollout delivered to the real PPO/A2C/REINFORCE train with SGD and a "
        "sample-tagged policy; per-sample visit counts are read back from the trained parameters (exactly-once delivery), field alignment from the "
        "misalignment penalty, approx_kl and the logged policy loss; (ring) flatten_axes / batch_indices / gather / batches / sample on tagged "
        "RolloutBuffers with pytree observations; non-trivial = a remainder was dropped or several epochs ran; distinct = distinct (shape class, fired kinds, key)",
        "assumptions": ["optax.sgd trusted", "fresh shuffle per epoch judged over >= 10 trainings per run (false-alarm probability < 1e-13)"],
        "real": ["lerax PPO.train/train_epoch/train_batch/ppo_loss, A2C.train, REINFORCE.train, AbstractBuffer.flatten_axes/batch_indices/gather/batches, RolloutBuffer.sample"],
        "stub": ["TagPolicy (one value-table entry per sample), tagged rollout built by the simulator"],
    },
    "C18": {
        "scenarios": [{"name": "storage", "runs": {"quick": 60, "thorough": 1000000}, "chunks": {"quick": 2, "thorough": 2}}],
        "budget_s": {"quick": 600, "thorough": 1200},
        "rule": "one evaluation = one seeded operation sequence (2..9 ops) over a simulated disk: save under a path spelling (str/Path, with/without "
        ".eqx, no_suffix, nested missing directories, relative path with changed cwd), load with the same or mismatching constructor arguments, and "
        "faults between/inside operations (torn write at a seeded byte, ENOSPC after k bytes via a patched open, pre-existing garbage / empty / "
        "foreign-architecture file); non-trivial = a fault fired or a damaged/mismatching file was loaded; distinct = distinct (policy class x space "
        "kind, fired event/fault kinds)",
        "assumptions": ["payload bit flips are not injected (the statement promises no checksums)", "EACCES not injected (the sandbox runs as root)",
                        "file stems contain no dot other than the suffix", "Python-float hyper-parameters compared after float32 rounding"],
        "real": ["lerax Serializable.serialize/deserialize, MLPActorCriticPolicy / MLPQPolicy / MLPSACPolicy constructors and inference, equinox serialisation, the real file system (temp dir)"],
        "stub": ["SimMDP variants only as carriers of action/observation spaces", "FaultyOpen (short write + ENOSPC, or the open itself fails with the older file intact)"],
    },
    "C11": {
        "scenarios": [{"name": "train", "runs": {"quick": 24, "thorough": 1000000}, "chunks": {"quick": 1, "thorough": 1}}],
        "budget_s": {"quick": 900, "thorough": 1800},
        "rule": "one evaluation = one seeded configuration (algorithm x environment x observer set x total_timesteps x policy/learn keys x tables x "
        "host-fault schedule): the real learn() is run observer-free, repeated, with another key, with the observer set (recording / console / "
        "TensorBoard / progress bar / callback list / video through the simulated executor, injected back-end failure, simulated wall clock) and, for "
        "a fraction, in a fresh interpreter under another PYTHONHASHSEED (in half of those after importing every lerax module first); all trained array leaves are compared bit for bit; "
        "constructor-purity class: default object, another object with modified copies of every dict-valued option, default object again - configuration digests must not move; non-trivial = a "
        "fault or total_timesteps not a multiple of the iteration size; distinct = distinct (class, fired kinds, total)",
        "assumptions": ["bit-equality is demanded of parameters; should XLA re-associate because an observer changes the program the check downgrades to 1e-6 relative and reports the probe",
                        "XLA's own scheduling of host callbacks is not controlled; the one place lerax creates concurrency (video executor) is"],
        "real": ["lerax learn/reset/iteration of PPO, A2C, REINFORCE, DQN, SAC with real MLP policies", "LoggingCallback, ProgressBarCallback, CallbackList, ConsoleBackend, TensorBoardBackend (tmp dir), video recorder incl. pygame rendering of CartPole",
                 "CartPole / Pendulum under TimeLimit, SimMDP under TimeLimit"],
        "stub": ["RecordingBackend", "SimExecutor (parked real thread, released at plan-chosen points)", "simulated datetime for the run name", "SimMDP in some classes"],
    },
    "C02": {
        "scenarios": [{"name": "rollout", "runs": {"quick": 8, "thorough": 1000000}, "chunks": {"quick": 1, "thorough": 1}},
                      {"name": "train", "runs": {"quick": 40, "thorough": 1000000}, "chunks": {"quick": 2, "thorough": 2}}],   # constructor-purity class only
        "budget_s": {"quick": 900, "thorough": 2400},
        "rule": "one evaluation = one seeded auto-reset rollout (50..600 steps) of a built-in environment (constructor variant, optional wrapper "
        "stack) driven by a seeded adversary action schedule (uniform samples / long hold of the low or high bound corner / alternation between "
        "opposite corners with a drawn period / mixed corners / one-step look-ahead towards the bounds); invariants after every step: observation in the declared space with canonical "
        "shape and dtype and no NaN, generated action in the action space, finite float scalar reward, boolean scalar flags; non-trivial = an "
        "episode end or a bound-corner action occurred; distinct = distinct (environment class, adversary mode, fired event kinds).  Further classes: stacks with a "
        "pass-through wrapper outside a space-changing one; stacks with non-centred RescaleAction ranges over a seam (ActionSpy) that notes whether the action "
        "reaching the environment is a member of its space; constructor sweep = random and one-flag-odd combinations of every documented observation option of the "
        "MuJoCo environments, decided abstractly with jax.eval_shape (declared space vs shape/dtype of reset and step outputs)",
        "assumptions": ["both tiers: 5 classic-control environments (Euler and Tsit5 variants), all 11 MuJoCo environments and the 3 Unitree G1 tasks; the thorough tier runs them longer",
                        "Python-side-state independence is decided by the re-execution digests (same process) of the driver"],
        "real": ["all built-in environments incl. diffrax solves and mjx.step, wrappers over them, spaces' contains/sample"],
        "stub": ["adversary action schedule", "ActionSpy (identity wrapper between stack and environment)"],
    },
    "C20": {
        "scenarios": [{"name": "g1", "runs": {"quick": 6, "thorough": 1000000}, "chunks": {"quick": 1, "thorough": 1}}],
        "budget_s": {"quick": 1200, "thorough": 3000},
        "rule": "one evaluation = one seeded run: (task classes) K vmapped initial() states under K keys plus an auto-reset rollout of L control steps "
        "under TimeLimit(6) through env.step — at every reset event (explicit and automatic) the four randomised model fields lie within nominal x range, "
        "every other model leaf is bit-identical to the nominal model, command and gait frequency lie within range (zero command for standing tasks), "
        "stored kinematics equal mjx.forward of the stored configuration; at every control step both phases lie in [-pi, pi], stay half a cycle apart and "
        "advance by 2*pi*f*dt; (clock classes) the phase clock alone for 2e5..1e6 ticks per drawn (frequency, dt) and the foot-height profile on a "
        "4001-point phase grid; non-trivial = a reset event or a phase wrap occurred; distinct = distinct (class, fired event kinds, variant)",
        "assumptions": ["pi taken as float32 pi with slack 1e-6; half-cycle slack in the clock runs: 1e-5 per tick and 1e-4 + 5e-7*n after n ticks (float32 rounding of the two legs differs; measured 2.7e-8 per tick), 1e-4 in episodes",
                        "quick tier: default constructor ranges only; thorough tier adds a constructor swarm incl. degenerate lo == hi ranges"],
        "real": ["lerax G1Locomotion / G1Standing / G1Standup initial, step, randomize_*, gait helpers, mjx.forward / mjx.step, TimeLimit"],
        "stub": ["adversary actions (uniform samples or a held bound corner)"],
    },
}
