"""Entry point of every property check:  python -m checks.run <Cxx> --tier quick|thorough

The parent process is JAX-free; all simulation happens in spawned workers (dsim.driver).
"""

from __future__ import annotations

import argparse
import os
import sys

sys.path.insert(0, os.path.dirname(os.path.dirname(os.path.abspath(__file__))))

from checks.specs import SPECS  # noqa: E402
from dsim.driver import run_check  # noqa: E402


def main(argv=None) -> int:
    ap = argparse.ArgumentParser()
    ap.add_argument("prop")
    ap.add_argument("--tier", default=os.environ.get("VERIF_TIER", "quick"), choices=["quick", "thorough"])
    a = ap.parse_args(argv)
    if a.prop not in SPECS:
        print(f"no check registered for {a.prop}", file=sys.stderr)
        return 2
    return run_check(a.prop, a.tier, SPECS[a.prop])


if __name__ == "__main__":
    sys.exit(main())
