#!/bin/bash
# Apply a seeded change to /repo, run the quick checks of the given properties, undo the change.
#   checks/try_patch.sh <patch.diff> C04 [C03 ...]
# Never commits anything in /repo; always restores the working tree.
set -u
patch="$1"; shift
cd /repo || exit 2
if ! git diff --quiet; then echo "/repo working tree is dirty; refusing" >&2; exit 2; fi
git apply "$patch" || { echo "patch does not apply" >&2; exit 2; }
trap 'git -C /repo checkout -- . ; git -C /repo clean -fdq src' EXIT
cd /verif
export VERIF_EVIDENCE_DIR=/tmp/seeded_evidence   # never overwrite the evidence of the unchanged tree
rc=0
for p in "$@"; do
  out=$(timeout 1800 /venv/bin/python -m checks.run "$p" --tier "${TIER:-quick}" 2>&1)
  code=$?
  echo "$out" | grep -a "VIOLATION\|KNOWN-FINDING\|^\[" | cut -c1-400
  echo "== $p exit=$code"
  [ $code -ne 0 ] && rc=1
done
exit $rc
