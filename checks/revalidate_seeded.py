#!/usr/bin/env python3
"""Regression run of the seeded changes: every kept change under /verif/seeded must still be reported.

    python3 checks/revalidate_seeded.py [--jobs 4] [--only C09 ...] [--all-checks]

For each /verif/seeded/<tag>/ a scratch worktree of /repo HEAD is made under /tmp, patch.diff is applied THERE (never in
/repo), and the quick check of the property the change was aimed at (with --all-checks: of every check listed in
meta.json "caught_by_checks") is run with PYTHONPATH pointing at the scratch copy.  Evidence of these runs goes to a
scratch directory, never to /verif/evidence.  The worktree is removed afterwards.  Exit 0 iff every change is reported
by the check of its own property.
"""
from __future__ import annotations

import argparse
import json
import os
import shutil
import subprocess
import sys
from concurrent.futures import ThreadPoolExecutor

ROOT = os.path.dirname(os.path.dirname(os.path.abspath(__file__)))
SEEDED = os.path.join(ROOT, "seeded")


def run_one(tag: str, all_checks: bool, workers: int) -> dict:
    meta = json.load(open(os.path.join(SEEDED, tag, "meta.json")))
    prop = meta["property"]
    checks = [prop] + ([c for c in meta.get("caught_by_checks", []) if c != prop] if all_checks else [])
    wt = f"/tmp/rv_{tag}"
    ev = f"/tmp/rv_evidence/{tag}"
    subprocess.run(["git", "-C", "/repo", "worktree", "remove", "--force", wt], capture_output=True)
    shutil.rmtree(wt, ignore_errors=True)
    out = {"tag": tag, "property": prop, "results": {}}
    try:
        subprocess.run(["git", "-C", "/repo", "worktree", "add", "--detach", "-q", wt, "HEAD"], check=True, capture_output=True)
        ap = subprocess.run(["git", "-C", wt, "apply", os.path.join(SEEDED, tag, "patch.diff")], capture_output=True, text=True)
        if ap.returncode != 0:
            out["error"] = "patch does not apply: " + ap.stderr.strip()[:200]
            return out
        env = dict(os.environ, PYTHONPATH=os.path.join(wt, "src"), VERIF_EVIDENCE_DIR=ev, VERIF_WORKERS=str(workers))
        for c in checks:
            p = subprocess.run(["timeout", "3000", "/venv/bin/python", "-m", "checks.run", c, "--tier", "quick"], cwd=ROOT, env=env, capture_output=True, text=True)
            sigs = sorted({" ".join(w for w in line.split() if w.startswith(("check=", "cause="))) for line in p.stdout.splitlines() if line.startswith("VIOLATION")})
            out["results"][c] = {"exit": p.returncode, "signatures": sigs}
    finally:
        subprocess.run(["git", "-C", "/repo", "worktree", "remove", "--force", wt], capture_output=True)
        shutil.rmtree(wt, ignore_errors=True)
        shutil.rmtree(ev, ignore_errors=True)
    return out


def main() -> int:
    ap = argparse.ArgumentParser()
    ap.add_argument("--jobs", type=int, default=4)
    ap.add_argument("--only", nargs="*", default=None, help="properties or tags")
    ap.add_argument("--all-checks", action="store_true")
    ap.add_argument("--out", default=os.path.join(ROOT, "seeded", "REVALIDATION.json"))
    a = ap.parse_args()
    tags = sorted(t for t in os.listdir(SEEDED) if os.path.isfile(os.path.join(SEEDED, t, "patch.diff")))
    if a.only:
        tags = [t for t in tags if t in a.only or t.split("_")[0] in a.only]
    workers = max(2, 16 // max(1, a.jobs))
    rows = []
    with ThreadPoolExecutor(a.jobs) as ex:
        for r in ex.map(lambda t: run_one(t, a.all_checks, workers), tags):
            own = r["results"].get(r["property"], {})
            caught = own.get("exit") == 1 and bool(own.get("signatures"))
            accepted = json.load(open(os.path.join(SEEDED, r["tag"], "meta.json"))).get("accepted_miss")
            if accepted and not caught:
                r["accepted_miss"] = accepted
                caught = True   # documented limit: counted separately below
            r["caught_by_own_check"] = caught
            rows.append(r)
            print(f"{r['tag']:8s} {'CAUGHT' if caught else 'MISSED'}  " + "; ".join(f"{c}: exit={v['exit']} {v['signatures'][:2]}" for c, v in r["results"].items()) + (("  ERROR " + r["error"]) if "error" in r else ""), flush=True)
    head = subprocess.run(["git", "-C", "/repo", "rev-parse", "--short", "HEAD"], capture_output=True, text=True).stdout.strip()
    json.dump({"repo_head": head, "changes": rows, "all_caught": all(r["caught_by_own_check"] for r in rows)}, open(a.out, "w"), indent=1)
    missed = [r["tag"] for r in rows if not r["caught_by_own_check"]]
    acc = [r["tag"] for r in rows if r.get("accepted_miss")]
    if acc:
        print(f"documented, accepted misses (see meta.json): {acc}")
    print(f"{len(rows) - len(missed)}/{len(rows)} seeded changes reported by the check of their own property" + (f"; MISSED: {missed}" if missed else ""))
    return 1 if missed else 0


if __name__ == "__main__":
    sys.exit(main())
