"""Store a verified seeded change under /verif/seeded/<id>/ :  python3 checks/keep_seeded.py <tag> <caught_by ...>"""
import json, os, shutil, sys
tag = sys.argv[1]
caught = sys.argv[2:]
src = f"/tmp/mutants/{tag}"
dst = f"/verif/seeded/{tag}"
os.makedirs(dst, exist_ok=True)
shutil.copy(f"{src}/patch.diff", f"{dst}/patch.diff")
shutil.copy(f"{src}/demo.py", f"{dst}/demo.py")
try:
    meta = json.load(open(f"{src}/meta.json"))
except Exception:
    meta = {}
ver = open(f"{src}/verify.txt").read() if os.path.exists(f"{src}/verify.txt") else ""
lines = [l for l in ver.splitlines() if l.startswith(("demo_", "tests_with_change", "VIOLATION", "== "))]
out = {
    "property": meta.get("property", tag.split("_")[0]),
    "summary": meta.get("summary"),
    "needs_to_manifest": meta.get("needs"),
    "files": meta.get("files"),
    "produced_by": "independent sub-agent given only the property text and a scratch worktree",
    "confirmed_by_me": {
        "how": "fresh scratch worktree of /repo HEAD: demo.py passes without the change and fails with it; listed repository tests pass with the change; "
               "then `checks/try_patch.sh` (git apply to /repo, quick checks, git checkout) — see lines below",
        "lines": [l[:300] for l in lines],
    },
    "agent_reported": {k: meta.get(k) for k in ("tests_run", "demo_with_change", "demo_without_change")},
    "caught_by_checks": caught,
}
json.dump(out, open(f"{dst}/meta.json", "w"), indent=1)
print("kept", dst, "caught by", caught)
